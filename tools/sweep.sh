#!/bin/bash
# sweep.sh: zero-annotation safety sweep (not a property check, not in MANIFEST). Puts EVERY package-level function of
# package ice that has no contract yet under an empty contract ("props SWEEP") in a scratch copy of /repo, so that the
# generator emits its default safety obligations (index and slice bounds, make sizes) and a cover obligation per return,
# and discharges them. Functions the generator cannot translate are dropped and listed. Output: one line per failing
# obligation; the scratch copy is removed.
cd /verif
D=$(mktemp -d /tmp/sweep.XXXXXX); trap 'rm -rf "$D"' EXIT
rsync -a --exclude .git /repo/ "$D/repo/"
./bin/govc list -repo "$D/repo" 2>/dev/null | grep '^ice\.' | sed 's/^ice\.//' | grep -v '\$' | sort > "$D/all.txt"
grep -h '^//@ func' /repo/verif_contracts_*.go | awk '{print $3}' | sort -u > "$D/have.txt"
comm -23 "$D/all.txt" "$D/have.txt" > "$D/funcs.txt"
python3 - "$D" <<'PY'
import subprocess,re,sys
D=sys.argv[1]
fs=[l.strip() for l in open(D+'/funcs.txt') if l.strip()]
dropped=[]
for it in range(100):
    out=["//go:build verif","","package ice",""]
    for f in fs: out+=["//@ func "+f,"//@   props SWEEP",""]
    open(D+'/repo/verif_contracts_zz_sweep.go','w').write("\n".join(out))
    r=subprocess.run(['/verif/bin/govc','check','-prop','SWEEP','-tier','quick','-repo',D+'/repo','-evidence',D+'/ev.json','-verif','/verif'],capture_output=True,text=True)
    txt=r.stdout+r.stderr
    if 'vc-generation' not in txt: break
    g=open('/verif/replay/out/SWEEP_vc-generation.txt').read()
    names=set(re.findall(r'^ice\.(\S+?): ',g,re.M))
    if not names: print(g[:400]); break
    for n in names:
        if n in fs: fs.remove(n); dropped.append(n)
print("functions swept:",len(fs),"not translatable (dropped):",", ".join(dropped) or "none")
for l in txt.splitlines():
    if l.startswith('  obligation') or l.startswith('SWEEP quick') or ('cover#' in l and l.startswith('VIOLATION')): print(l[:220])
PY
rm -f /verif/replay/out/SWEEP_* 2>/dev/null
