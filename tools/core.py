#!/usr/bin/env python3
# usage: core.py <func key> <obligation substring>   -> minimal unsat core of a (cover) query without quantified axioms
import subprocess,sys
out=subprocess.run(['/verif/bin/govc','dump','-func',sys.argv[1],'-obl',sys.argv[2]],capture_output=True,text=True).stdout
lines=out.split('\n')
try:
    s=next(i for i,l in enumerate(lines) if l.startswith('(set-option'))
    e=next(i for i,l in enumerate(lines) if i>s and l.startswith('(check-sat'))
except StopIteration:
    print("no query"); sys.exit(1)
lines=[l for l in lines[s:e+1] if '(forall ' not in l]
def run(ls):
    open('/tmp/core_q.smt2','w').write('\n'.join(ls))
    return subprocess.run(['z3-new','-T:5','/tmp/core_q.smt2'],capture_output=True,text=True).stdout.split('\n')[0]
print("full:",run(lines))
idx=[i for i,l in enumerate(lines) if l.startswith('(assert')]
cur=list(lines); keep=[]
for i in idx[:-1]:
    t=list(cur); t[i]='; removed'
    if run(t)=='unsat': cur=t
    else: keep.append(i)
print(len(keep),"core")
for i in keep: print(lines[i][:700])
print(lines[idx[-1]][:200])
