module mutgen

go 1.24
