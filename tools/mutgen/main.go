// mutgen: systematic single-point mutants of the repository functions that are under contract, used to look for
// holes in the contracts (a mutant no check reports is either equivalent, outside every property, or a hole).
// usage: mutgen -repo /repo -funcs funcs.txt -out DIR   (funcs.txt: "file.go FuncName" per line is not needed: all
// non-test files of package ice are scanned and only functions whose name is listed are mutated)
package main

import (
	"bytes"
	"flag"
	"fmt"
	"go/ast"
	"go/format"
	"go/parser"
	"go/token"
	"os"
	"path/filepath"
	"strings"
)

func main() {
	repo := flag.String("repo", "/repo", "")
	funcsFile := flag.String("funcs", "", "file with one function key per line, e.g. ice.(*Agent).addPair or ice.foo")
	out := flag.String("out", "/tmp/mutants", "")
	flag.Parse()
	want := map[string]bool{}
	data, _ := os.ReadFile(*funcsFile)
	for _, l := range strings.Split(string(data), "\n") {
		l = strings.TrimSpace(l)
		if i := strings.Index(l, "$"); i >= 0 {
			l = l[:i] // closures belong to their outer function
		}
		if l != "" {
			want[l] = true
		}
	}
	files, _ := filepath.Glob(filepath.Join(*repo, "*.go"))
	n := 0
	for _, f := range files {
		if strings.HasSuffix(f, "_test.go") || strings.Contains(filepath.Base(f), "verif_contracts") {
			continue
		}
		src, _ := os.ReadFile(f)
		fset := token.NewFileSet()
		// count mutation points first
		file, err := parser.ParseFile(fset, f, src, parser.ParseComments)
		if err != nil {
			continue
		}
		type point struct {
			fn   string
			kind string
			idx  int
		}
		var points []point
		for _, d := range file.Decls {
			fd, ok := d.(*ast.FuncDecl)
			if !ok || fd.Body == nil {
				continue
			}
			key := "ice." + fd.Name.Name
			if fd.Recv != nil && len(fd.Recv.List) == 1 {
				t := fd.Recv.List[0].Type
				if st, ok := t.(*ast.StarExpr); ok {
					if id, ok := st.X.(*ast.Ident); ok {
						key = "ice.(*" + id.Name + ")." + fd.Name.Name
					}
				} else if id, ok := t.(*ast.Ident); ok {
					key = "ice.(" + id.Name + ")." + fd.Name.Name
				}
			}
			if !want[key] {
				continue
			}
			i := 0
			ast.Inspect(fd.Body, func(nd ast.Node) bool {
				switch x := nd.(type) {
				case *ast.IfStmt:
					_ = x
					points = append(points, point{key, "negate-if", i})
					i++
				case *ast.ExprStmt:
					if _, ok := x.X.(*ast.CallExpr); ok {
						points = append(points, point{key, "drop-call", i})
						i++
					}
				case *ast.AssignStmt:
					if x.Tok == token.ASSIGN && len(x.Lhs) == 1 && len(x.Rhs) == 1 {
						if _, ok := x.Lhs[0].(*ast.SelectorExpr); ok {
							points = append(points, point{key, "drop-store", i})
							i++
						}
					}
				}
				return true
			})
		}
		for _, p := range points {
			fset2 := token.NewFileSet()
			file2, _ := parser.ParseFile(fset2, f, src, parser.ParseComments)
			var line int
			for _, d := range file2.Decls {
				fd, ok := d.(*ast.FuncDecl)
				if !ok || fd.Body == nil {
					continue
				}
				key := "ice." + fd.Name.Name
				if fd.Recv != nil && len(fd.Recv.List) == 1 {
					t := fd.Recv.List[0].Type
					if st, ok := t.(*ast.StarExpr); ok {
						if id, ok := st.X.(*ast.Ident); ok {
							key = "ice.(*" + id.Name + ")." + fd.Name.Name
						}
					} else if id, ok := t.(*ast.Ident); ok {
						key = "ice.(" + id.Name + ")." + fd.Name.Name
					}
				}
				if key != p.fn {
					continue
				}
				i := 0
				ast.Inspect(fd.Body, func(nd ast.Node) bool {
					switch x := nd.(type) {
					case *ast.IfStmt:
						if i == p.idx && p.kind == "negate-if" {
							x.Cond = &ast.UnaryExpr{Op: token.NOT, X: &ast.ParenExpr{X: x.Cond}}
							line = fset2.Position(x.Pos()).Line
						}
						i++
					case *ast.ExprStmt:
						if call, ok := x.X.(*ast.CallExpr); ok {
							if i == p.idx && p.kind == "drop-call" {
								line = fset2.Position(x.Pos()).Line
								// keep argument evaluation out: replace the call by a no-op that still uses nothing
								x.X = &ast.CallExpr{Fun: &ast.FuncLit{Type: &ast.FuncType{Params: &ast.FieldList{}}, Body: &ast.BlockStmt{}}}
								_ = call
							}
							i++
						}
					case *ast.AssignStmt:
						if x.Tok == token.ASSIGN && len(x.Lhs) == 1 && len(x.Rhs) == 1 {
							if _, ok := x.Lhs[0].(*ast.SelectorExpr); ok {
								if i == p.idx && p.kind == "drop-store" {
									line = fset2.Position(x.Pos()).Line
									x.Lhs[0] = ast.NewIdent("_")
								}
								i++
							}
						}
					}
					return true
				})
			}
			var buf bytes.Buffer
			if err := format.Node(&buf, fset2, file2); err != nil {
				continue
			}
			n++
			dir := filepath.Join(*out, fmt.Sprintf("m%04d", n))
			os.MkdirAll(dir, 0o755)
			os.WriteFile(filepath.Join(dir, filepath.Base(f)), buf.Bytes(), 0o644)
			os.WriteFile(filepath.Join(dir, "META"), []byte(fmt.Sprintf("%s %s %s:%d\n", p.fn, p.kind, filepath.Base(f), line)), 0o644)
		}
	}
	fmt.Println(n, "mutants")
}
