#!/bin/bash
# mutscan.sh: auxiliary hole finder (not a check). Generates single-point mutants (negated if, dropped call, dropped
# field store) of every repository function that is under contract and runs, for each mutant, the quick checks of the
# properties that claim the function, on a scratch copy. Output: /tmp/mutscan.out, one line per mutant
# (CAUGHT[props] / SURVIVED[props] / NOBUILD / SKIP-LOG). Takes a few hours; needs evidence/*.json of a previous run.
set -u
export GOFLAGS=-mod=mod GOPROXY=off
cd /verif/tools/mutgen && go build -o /tmp/mutgen . || exit 2
cd /verif
python3 - <<'PY'
import json,glob
fn2props={}
for f in glob.glob('/verif/evidence/C*.json'):
    d=json.load(open(f))
    for k in d['coverage'].get('functions_under_contract') or []:
        k=k.split(' @ ')[0]
        if k.startswith('iface ') or k.startswith('conforms'): continue
        fn2props.setdefault(k.split('$')[0],set()).add(d['property_id'])
open('/tmp/funcs.txt','w').write('\n'.join(sorted(fn2props)))
json.dump({k:sorted(v) for k,v in fn2props.items()},open('/tmp/fn2props.json','w'))
PY
rm -rf /tmp/mutants; /tmp/mutgen -repo /repo -funcs /tmp/funcs.txt -out /tmp/mutants | tail -1
run_one() {
  m=$1; d=/tmp/mutants/$m
  read fn kind loc < $d/META
  f=$(ls $d | grep '\.go$'); line=${loc##*:}
  srcline=$(sed -n "${line}p" /repo/$f)
  case "$srcline" in *".log."*|*"Logger."*|*"log."*|*"logger."*) echo "$m SKIP-LOG $fn $kind $loc"; return;; esac
  props=$(python3 -c "import json;print(' '.join(json.load(open('/tmp/fn2props.json')).get('$fn',[])))")
  D=$(mktemp -d /tmp/ms.XXXXXX); rsync -a --exclude .git /repo/ $D/repo/; cp $d/$f $D/repo/$f
  if ! (cd $D/repo && go build ./... >/dev/null 2>&1); then echo "$m NOBUILD $fn $kind $loc"; rm -rf $D; return; fi
  caught=""
  for p in $props; do /verif/check $p quick --repo $D/repo -evidence $D/ev.json >/dev/null 2>&1 || caught="$caught $p"; done
  if [ -n "$caught" ]; then echo "$m CAUGHT[$caught ] $fn $kind $loc"; else echo "$m SURVIVED[$props] $fn $kind $loc :: $(echo "$srcline" | sed 's/^[ \t]*//' | cut -c1-100)"; fi
  rm -rf $D
}
export -f run_one
ls /tmp/mutants | xargs -P ${MUTSCAN_JOBS:-6} -I{} bash -c 'run_one {}' > /tmp/mutscan.out 2>&1
echo DONE >> /tmp/mutscan.out
