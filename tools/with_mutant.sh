#!/bin/bash
# usage: with_mutant.sh <patch-file|sed-expr:FILE:EXPR> <prop> [tier]
# Applies a change to a scratch copy of /repo (outside /repo and /verif), runs the check with --repo, removes the copy.
set -u
PATCH="$1"; PROP="$2"; TIER="${3:-quick}"
D=$(mktemp -d /tmp/mut.XXXXXX)
trap 'rm -rf "$D"' EXIT
rsync -a --exclude .git /repo/ "$D/repo/"
if [[ "$PATCH" == sed:* ]]; then
  IFS=: read -r _ FILE EXPR <<<"$PATCH"
  sed -i -E "$EXPR" "$D/repo/$FILE" || exit 3
  (cd "$D/repo" && diff -u /repo/$FILE $FILE | head -20)
else
  (cd "$D/repo" && patch -p1 -s < "$PATCH") || exit 3
fi
(cd "$D/repo" && GOFLAGS=-mod=mod GOPROXY=off go build ./... ) || { echo "MUTANT DOES NOT COMPILE"; exit 4; }
/verif/check "$PROP" "$TIER" --repo "$D/repo" -evidence "$D/ev.json"
echo "exit=$?"
