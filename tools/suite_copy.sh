#!/bin/bash
# usage: suite_copy.sh <name> [patch.diff | -R:patch.diff ...]  : run pion/ice's own test suite (untagged) on a scratch copy of /repo's
# working tree (optionally with patches applied), print the verdict, remove the copy. Log: /tmp/suite.<name>.log
set -u
N=$1; shift
D=$(mktemp -d /tmp/suite.XXXXXX)
trap 'rm -rf "$D"' EXIT
rsync -a --exclude .git /repo/ "$D/repo/"
for p in "$@"; do R=""; case "$p" in -R:*) R="-R"; p="${p#-R:}";; esac; (cd "$D/repo" && patch -p1 -s $R < "$p") || { echo "$N: patch $p failed"; exit 3; }; done
cd "$D/repo" && GOFLAGS=-mod=mod GOPROXY=off go test -vet=off -count=1 -timeout 25m ./... > /tmp/suite.$N.log 2>&1
rc=$?
echo "$N suite_rc=$rc $(grep -c '^--- FAIL' /tmp/suite.$N.log) failed tests"; grep -E '^(--- FAIL|FAIL|panic)' /tmp/suite.$N.log | head -10
exit $rc
