#!/bin/bash
# selftest.sh [ids...]: must-fail corpus. Applies every seeded change (/verif/seeded/<id>_<n>/patch.diff) to a scratch
# copy of /repo, runs that property's quick check against the copy and expects exit 1 with a VIOLATION line.
# Writes /verif/seeded/<id>_<n>/detection.json (the obligations that caught it). Exit 1 if any change is missed.
cd /verif
export GOFLAGS=-mod=mod GOPROXY=off
dirs=${@:-$(ls seeded)}
run_one() {
  d=$1; prop=${d%%_*}
  D=$(mktemp -d /tmp/selftest.XXXXXX)
  rsync -a --exclude .git /repo/ "$D/repo/"
  if ! (cd "$D/repo" && patch -p1 -s --no-backup-if-mismatch < /verif/seeded/$d/patch.diff >/dev/null 2>&1); then
    echo "$d PATCH-DOES-NOT-APPLY"; rm -rf "$D"; return
  fi
  if ! (cd "$D/repo" && go build ./... >/dev/null 2>&1); then echo "$d DOES-NOT-COMPILE"; rm -rf "$D"; return; fi
  out=$(/verif/check "$prop" quick --repo "$D/repo" -evidence "$D/ev.json" 2>&1); rc=$?
  python3 - "$d" "$rc" <<PY
import json,sys,re
d,rc=sys.argv[1],int(sys.argv[2])
out='''$(echo "$out" | sed "s/'''/'/g" | sed 's/\\/\\\\/g')'''
obls=sorted(set(re.findall(r'^  obligation (\S+)',out,re.M)))
json.dump({"check":"./check %s quick"%d.split('_')[0],"exit":rc,"caught":rc==1 and 'VIOLATION' in out,"failing_obligations":obls},open('/verif/seeded/%s/detection.json'%d,'w'),indent=1)
print(d, "CAUGHT" if rc==1 else "MISSED rc=%d"%rc, "; ".join(o.split('/',1)[-1] for o in obls[:3]))
PY
  rm -rf "$D"
}
export -f run_one
printf '%s\n' $dirs | xargs -P 5 -I{} bash -c 'run_one {}' | sort | tee /tmp/selftest.out
grep -q "MISSED\|DOES-NOT\|PATCH-DOES" /tmp/selftest.out && exit 1
exit 0
