#!/bin/bash
# benign.sh [names...]: must-pass corpus. Applies every behaviour-preserving edit in /verif/mutants/benign/*.diff to a
# scratch copy of /repo and runs ALL claimed quick checks against it: every check must exit 0 (no false alarm).
cd /verif
export GOFLAGS=-mod=mod GOPROXY=off
names=${@:-$(ls mutants/benign | sed 's/\.diff$//')}
ids=$(python3 -c "import json;print(' '.join(c['property_id'] for c in json.load(open('MANIFEST.json'))['checks']))")
bad=0
for n in $names; do
  D=$(mktemp -d /tmp/benign.XXXXXX)
  rsync -a --exclude .git /repo/ "$D/repo/"
  if ! (cd "$D/repo" && patch -p1 -s --no-backup-if-mismatch < /verif/mutants/benign/$n.diff >/dev/null 2>&1); then echo "$n PATCH-DOES-NOT-APPLY"; bad=1; rm -rf "$D"; continue; fi
  if ! (cd "$D/repo" && go build ./... >/dev/null 2>&1); then echo "$n DOES-NOT-COMPILE"; bad=1; rm -rf "$D"; continue; fi
  alarms=""
  for id in $ids; do
    ( /verif/check $id quick --repo "$D/repo" -evidence "$D/ev_$id.json" > "$D/out_$id.txt" 2>&1; echo $? > "$D/rc_$id" ) &
  done
  wait
  for id in $ids; do
    if [ "$(cat $D/rc_$id)" != "0" ]; then alarms="$alarms $id:$(grep -m1 -o 'obligation [^ ]*' $D/out_$id.txt | cut -d' ' -f2)"; fi
  done
  if [ -n "$alarms" ]; then echo "$n FALSE-ALARM$alarms"; bad=1; else echo "$n ok"; fi
  rm -rf "$D"
done
exit $bad
