#!/usr/bin/env python3
# seed_table.py <round-suffixes...>: prints the DESIGN table rows "| seed | change | caught by |" for the seeds with the
# given index suffixes, from tools/seed_descriptions.json (hand-written one-liners + first-try status) and each
# seed's detection.json (written by tools/selftest.sh).
import json,sys,os
desc=json.load(open('/verif/tools/seed_descriptions.json'))
for suf in sys.argv[1:]:
    for prop in ['C02','C03','C04','C05','C06','C07','C09','C10','C11','C12','C13','C14','C15','C16','C17','C18','C19','C20']:
        sid=f'{prop}_{suf}'
        d='/verif/seeded/'+sid
        if not os.path.isdir(d):
            d2='/verif/seeded_retired/'+sid
            if os.path.isdir(d2):
                print(f"| {sid} | {desc.get(sid,{}).get('change','?')} | retired (see seeded_retired/{sid}/meta.json) |")
            continue
        det=json.load(open(d+'/detection.json')) if os.path.exists(d+'/detection.json') else {"failing_obligations":[]}
        obls=[o.replace('ice.','',1) for o in det.get('failing_obligations',[])][:2]
        e=desc.get(sid,{})
        caught=', '.join('`%s`'%o for o in obls) or e.get('now') or '`vc-generation` (the contract no longer binds to the changed function)'
        if e.get('first')=='missed': caught='first missed; now '+caught
        elif e.get('first'): caught=e['first']+'; now '+caught
        print(f"| {sid} | {e.get('change','?')} | {caught} |")
