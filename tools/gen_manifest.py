#!/usr/bin/env python3
# Regenerates /verif/MANIFEST.json from tools/props_table.json (claimed checks) and properties.jsonl.
import json, subprocess, os
V=os.path.dirname(os.path.dirname(os.path.abspath(__file__)))
props=[json.loads(l) for l in open(f'{V}/properties.jsonl')]
table=json.load(open(f'{V}/tools/props_table.json'))
hooks=subprocess.run(['git','-C','/repo','log','--format=%H %s'],capture_output=True,text=True).stdout.splitlines()
hook_commits=[l.split()[0] for l in hooks if l.split(' ',1)[1].startswith('verif:')]
m={"version":1,
"setup_cmd":"cd /verif/engine && GOFLAGS=-mod=vendor GOPROXY=off go build -o /verif/bin/govc ./cmd/govc",
"hooks":{"guard":"verif","enable":"go/packages BuildFlags -tags=verif; the hook files are comment-only contract files (//go:build verif, package clause + //@ comments), nothing is compiled in",
 "baseline_off_cmd":"cd /repo && go test -mod=mod -json -vet=off -count=1 -timeout 25m ./...","source_commits":hook_commits,"add_only":True},
"engines":[{"name":"govc","path":"/verif/engine","serves_properties":sorted(table['claimed'].keys()),
 "kind_free_text":"contract-based deductive verifier built here: weakest-precondition style VC generation over go/ssa of /repo's working tree, contracts as //@ comments in /repo/verif_contracts_*.go, obligations discharged by z3 5.1.0 / z3 4.8.12 / cvc5 1.0 (portfolio)"}],
"checks":[], "not_applicable":[], "notes":table.get('notes','')}
for p in props:
    pid=p['id']
    if pid in table['claimed']:
        c=table['claimed'][pid]
        m['checks'].append({"property_id":pid,"quick_cmd":f"./check {pid} quick","thorough_cmd":f"./check {pid} thorough",
          "evidence_file":f"/verif/evidence/{pid}.json","replay_cmd_template":f"./check {pid} --replay {{path}}","engine":"govc",
          "level_claimed":{"category":"proof","text":c['text'],"design_ref":c.get('design_ref','DESIGN.md section 5 / '+pid)},
          "level_note":c['note'],"technique":c.get('technique',"contract-based deductive verification: per-function contracts on the real code, VCs from go/ssa, discharged by SMT (z3/cvc5)")})
    else:
        m['not_applicable'].append({"property_id":pid,"reason":table['not_applicable'].get(pid,"check not built yet (work in progress; see DESIGN.md section 0)")})
json.dump(m,open(f'{V}/MANIFEST.json','w'),indent=1)
print("claimed:",[c['property_id'] for c in m['checks']])
