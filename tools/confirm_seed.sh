#!/bin/bash
# confirm_seed.sh <PROP> <n> : confirm a sub-agent's seeded change in a scratch worktree and store it under /verif/seeded/
set -u
# usage: confirm_seed.sh <PROP> <n> [srcdir] [out-index]   (round 2: confirm_seed.sh C02 1 /tmp/wt/C02b_out 3)
ID=$1; N=$2
SRC=${3:-/tmp/wt/${ID}_out}
OUT=/verif/seeded/${ID}_${4:-$N}
export GOFLAGS=-mod=mod GOPROXY=off
W=$(mktemp -d /tmp/confirm.XXXXXX)
trap 'git -C /repo worktree remove --force "$W/wt" >/dev/null 2>&1; rm -rf "$W"' EXIT
git -C /repo worktree add -q --detach "$W/wt" HEAD || exit 2
cd "$W/wt"
cp $SRC/demo${N}_test.go zz_demo_test.go
go test -count=1 -vet=off -run 'ZZ|Demo|Verif' . > "$W/clean.log" 2>&1; CLEAN=$?
git apply $SRC/change$N.diff || { echo "$ID $N: patch does not apply"; exit 3; }
go build ./... > "$W/build.log" 2>&1 || { echo "$ID $N: does not compile"; exit 4; }
go test -count=1 -vet=off -run 'ZZ|Demo|Verif' . > "$W/mut.log" 2>&1; MUT=$?
rm zz_demo_test.go
go test -count=1 -timeout 25m ./... > "$W/suite.log" 2>&1; SUITE=$?
mkdir -p $OUT
cp $SRC/change$N.diff $OUT/patch.diff; cp $SRC/demo${N}_test.go $OUT/demo_test.go; cp $SRC/notes$N.md $OUT/notes.md
python3 - "$ID" "$N" "$CLEAN" "$MUT" "$SUITE" "$OUT" <<'PY'
import json,sys
id,n,clean,mut,suite,out=sys.argv[1:]
json.dump({"property":id,"source":"independent sub-agent given only the property text and a scratch worktree",
 "needs_to_manifest":"see notes.md",
 "confirmed":{"demo_passes_on_unchanged_tree":clean=="0","demo_fails_with_change":mut!="0","existing_suite_passes_with_change":suite=="0"},
 "commands":["go test -count=1 -run 'ZZ|Demo|Verif' .  (unchanged tree)","git apply patch.diff && go build ./...","go test -count=1 -run 'ZZ|Demo|Verif' .  (with change)","go test -count=1 -timeout 25m ./...  (with change, demo removed)"]},
 open(out+"/meta.json","w"),indent=1)
print(id,n,"clean_rc",clean,"mut_rc",mut,"suite_rc",suite)
PY
