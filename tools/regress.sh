#!/bin/bash
# regress.sh: run after every engine or contract change.
#  1. every claimed quick check on the unchanged tree under solver seeds 0,1,2 (all must exit 0; covers decided)
#  2. the must-fail corpus (every seeded change under /verif/seeded must be reported)
#  3. the must-pass corpus (every behaviour-preserving edit under /verif/mutants/benign must stay silent)
cd /verif
rc=0
for s in 0 1 2; do
  out=$(VERIF_SEED=$s tools/run_all.sh 2>&1)
  if echo "$out" | grep -qv "rc=0"; then echo "seed $s:"; echo "$out" | grep -v "rc=0"; rc=1; else echo "seed $s: all $(echo "$out" | wc -l) checks pass"; fi
done
tools/selftest.sh > /tmp/regress_selftest.log 2>&1 || { echo "selftest: MISSED changes"; grep -v CAUGHT /tmp/regress_selftest.log; rc=1; }
echo "selftest: $(grep -c CAUGHT /tmp/regress_selftest.log) seeded changes caught"
tools/benign.sh > /tmp/regress_benign.log 2>&1 || { echo "benign: FALSE ALARMS"; grep -v " ok$" /tmp/regress_benign.log; rc=1; }
echo "benign: $(grep -c ' ok$' /tmp/regress_benign.log) edits silent"
exit $rc
