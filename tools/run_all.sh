#!/bin/bash
# runs every claimed check's quick command; prints one line per property
cd /verif
ids=$(python3 -c "import json;print(' '.join(c['property_id'] for c in json.load(open('MANIFEST.json'))['checks']))")
fail=0
for id in $ids; do
  ( out=$(./check $id ${1:-quick} 2>&1); rc=$?; echo "$id rc=$rc $(echo "$out" | tail -1)"; [ $rc -ne 0 ] && echo "$out" | grep -E "VIOLATION|KNOWN" | head -5 ) &
done
wait
