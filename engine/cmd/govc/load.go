package main

// load.go: load /repo (build tag verif) with go/packages, build go/ssa with
// debug info, index functions, and collect the //@ contract comment lines from
// the comment-only contract files.

import (
	"fmt"
	"go/ast"
	"go/token"
	"go/types"
	"os"
	"path/filepath"
	"sort"
	"strings"

	"golang.org/x/tools/go/packages"
	"golang.org/x/tools/go/ssa"
	"golang.org/x/tools/go/ssa/ssautil"
)

type Program struct {
	Fset    *token.FileSet
	Pkgs    []*packages.Package
	SSA     *ssa.Program
	SSAPkgs []*ssa.Package
	// Funcs indexes every function (incl. closures and methods) of the
	// loaded repo packages by "<pkgname>.<RelString>", e.g.
	// "ice.(*Agent).handleRoleConflict", "ice.readStreamingPacket".
	Funcs map[string]*ssa.Function
	// RepoPkgs: package paths that belong to the repository module.
	RepoPkgs map[string]bool
	// ContractLines: raw //@ lines with positions, per package name.
	ContractLines []ContractLine
	TypesByName   map[string]types.Type // "ice.Agent" -> named type
	PkgByName     map[string]*types.Package
	PkgsByName    map[string][]*types.Package
}

type ContractLine struct {
	Pkg  string // package name the file belongs to
	File string
	Line int
	Text string // text after "//@"
}

func loadProgram(repo string, extraSpecFiles []string) (*Program, error) {
	cfg := &packages.Config{
		Mode: packages.NeedName | packages.NeedFiles | packages.NeedCompiledGoFiles |
			packages.NeedImports | packages.NeedDeps | packages.NeedTypes |
			packages.NeedSyntax | packages.NeedTypesInfo | packages.NeedTypesSizes | packages.NeedModule,
		Dir:        repo,
		BuildFlags: []string{"-tags=verif", "-mod=mod"},
		Env:        append(os.Environ(), "GOFLAGS=-mod=mod", "GOPROXY=off"),
		Tests:      false,
	}
	pkgs, err := packages.Load(cfg, ".", "./internal/...")
	if err != nil {
		return nil, err
	}
	nerr := 0
	packages.Visit(pkgs, nil, func(p *packages.Package) {
		for _, e := range p.Errors {
			if nerr < 10 {
				fmt.Fprintf(os.Stderr, "load error: %v\n", e)
			}
			nerr++
		}
	})
	if nerr > 0 {
		return nil, fmt.Errorf("%d package load errors (the tree does not compile)", nerr)
	}
	prog, ssapkgs := ssautil.AllPackages(pkgs, ssa.GlobalDebug|ssa.InstantiateGenerics)
	prog.Build()
	P := &Program{Fset: prog.Fset, Pkgs: pkgs, SSA: prog, SSAPkgs: ssapkgs,
		Funcs: map[string]*ssa.Function{}, RepoPkgs: map[string]bool{},
		TypesByName: map[string]types.Type{}, PkgByName: map[string]*types.Package{}, PkgsByName: map[string][]*types.Package{}}
	for _, p := range pkgs {
		P.RepoPkgs[p.PkgPath] = true
	}
	packages.Visit(pkgs, nil, func(p *packages.Package) {
		if p.Types != nil {
			P.PkgsByName[p.Types.Name()] = append(P.PkgsByName[p.Types.Name()], p.Types)
			if _, dup := P.PkgByName[p.Types.Name()]; !dup || P.RepoPkgs[p.PkgPath] {
				P.PkgByName[p.Types.Name()] = p.Types
			}
		}
	})
	for fn := range ssautil.AllFunctions(prog) {
		if fn.Pkg == nil || !P.RepoPkgs[fn.Pkg.Pkg.Path()] {
			continue
		}
		if fn.Synthetic != "" && !strings.Contains(fn.Name(), "$") && fn.Parent() == nil {
			// wrappers/thunks: index too (needed for promoted methods) but never under contract
		}
		key := fn.Pkg.Pkg.Name() + "." + fn.RelString(fn.Pkg.Pkg)
		if old, ok := P.Funcs[key]; ok && old.Synthetic == "" {
			continue
		}
		P.Funcs[key] = fn
	}
	for _, p := range pkgs {
		scope := p.Types.Scope()
		for _, n := range scope.Names() {
			if tn, ok := scope.Lookup(n).(*types.TypeName); ok {
				P.TypesByName[p.Types.Name()+"."+n] = tn.Type()
			}
		}
		for i, f := range p.Syntax {
			fname := p.CompiledGoFiles[i]
			if !strings.HasPrefix(filepath.Base(fname), "verif_contracts") {
				continue
			}
			P.collectContractLines(p.Types.Name(), fname, f)
		}
	}
	for _, sf := range extraSpecFiles {
		data, err := os.ReadFile(sf)
		if err != nil {
			return nil, err
		}
		pkg := "ice"
		for i, l := range strings.Split(string(data), "\n") {
			t := strings.TrimSpace(l)
			if strings.HasPrefix(t, "package ") {
				pkg = strings.TrimSpace(strings.TrimPrefix(t, "package "))
				continue
			}
			if strings.HasPrefix(t, "//@") {
				P.ContractLines = append(P.ContractLines, ContractLine{Pkg: pkg, File: sf, Line: i + 1, Text: strings.TrimPrefix(t, "//@")})
			}
		}
	}
	sort.SliceStable(P.ContractLines, func(i, j int) bool {
		a, b := P.ContractLines[i], P.ContractLines[j]
		if a.File != b.File {
			return a.File < b.File
		}
		return a.Line < b.Line
	})
	return P, nil
}

func (P *Program) collectContractLines(pkg, fname string, f *ast.File) {
	for _, cg := range f.Comments {
		for _, c := range cg.List {
			t := c.Text
			if strings.HasPrefix(t, "//@") {
				pos := P.Fset.Position(c.Pos())
				P.ContractLines = append(P.ContractLines, ContractLine{Pkg: pkg, File: fname, Line: pos.Line, Text: strings.TrimPrefix(t, "//@")})
			}
		}
	}
}

func (P *Program) isRepoFunc(fn *ssa.Function) bool {
	if fn == nil {
		return false
	}
	if fn.Pkg != nil {
		return P.RepoPkgs[fn.Pkg.Pkg.Path()]
	}
	// synthetic wrappers (promoted methods, bound methods) have no package: use the object's
	if o := fn.Object(); o != nil && o.Pkg() != nil {
		return P.RepoPkgs[o.Pkg().Path()]
	}
	if fn.Signature.Recv() != nil {
		t := fn.Signature.Recv().Type()
		if pt, ok := t.Underlying().(*types.Pointer); ok {
			t = pt.Elem()
		}
		if n, ok := types.Unalias(t).(*types.Named); ok && n.Obj().Pkg() != nil {
			return P.RepoPkgs[n.Obj().Pkg().Path()]
		}
	}
	return false
}

// funcKey is the contract key of a function.
func funcKey(fn *ssa.Function) string {
	if fn.Pkg != nil {
		return fn.Pkg.Pkg.Name() + "." + fn.RelString(fn.Pkg.Pkg)
	}
	// synthetic wrappers / external functions
	if o := fn.Object(); o != nil && o.Pkg() != nil {
		return o.Pkg().Name() + "." + fn.RelString(o.Pkg())
	}
	return fn.String()
}

// lookupMember finds pkgName.member in any loaded package of that name
// (repository packages first).
func (P *Program) lookupMember(pkgName, member string) (types.Object, *types.Package) {
	var second types.Object
	var secondP *types.Package
	for _, p := range P.PkgsByName[pkgName] {
		if o := p.Scope().Lookup(member); o != nil {
			if P.RepoPkgs[p.Path()] {
				return o, p
			}
			if second == nil {
				second, secondP = o, p
			}
		}
	}
	return second, secondP
}
