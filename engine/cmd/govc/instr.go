package main

// instr.go: semantics of individual go/ssa instructions.

import (
	"fmt"
	"go/constant"
	"go/token"
	"go/types"
	"strings"
	"math/big"

	"golang.org/x/tools/go/ssa"
)

func constantString(c *ssa.Const) string {
	if c.Value.Kind() == constant.String {
		return constant.StringVal(c.Value)
	}
	return c.Value.String()
}

func (fr *Frame) pos(p token.Pos) token.Position { return fr.vc.P.Fset.Position(p) }

// oblige registers a proof obligation at the current program point.
func (fr *Frame) oblige(kind, label, goal string, props []string, pos token.Pos, src string) *Obligation {
	vc := fr.vc
	if goal == "true" {
		// still count trivially true obligations? They carry no information; skip.
		return nil
	}
	top := fr.top
	name := funcKey(top.fn) + "/" + kind
	if label != "" {
		name += "#" + label
	}
	if fr != top {
		name += "@" + fr.inlPath
	}
	vc.oblNames[name]++
	if n := vc.oblNames[name]; n > 1 {
		name = fmt.Sprintf("%s~%d", name, n)
	}
	if len(props) == 0 && top.contract != nil {
		props = top.contract.Props
	}
	o := &Obligation{Name: name, Props: props, Kind: kind, Fn: funcKey(top.fn), Prefix: len(vc.lines),
		Reach: fr.curR, Goal: goal, Src: src, Pos: fr.pos(pos), vc: vc, fr: fr.top}
	vc.obls = append(vc.obls, o)
	return o
}

func (fr *Frame) wantSafety(k string) bool {
	ct := fr.top.contract
	if ct == nil {
		return false
	}
	if k == "index" && ct.Opts["nosafety"] == "" {
		// index / slice bounds are checked in every function under contract: a bounds panic is
		// never an acceptable way to satisfy a postcondition
		return true
	}
	return ct.Safety[k]
}

func (fr *Frame) freshRef(hint string) string {
	vc := fr.vc
	r := vc.fresh(hint, "Int")
	vc.assert("(> " + r + " 0)")
	vc.assert("(= (birth " + r + ") " + fr.cur.now + ")")
	fr.cur.now = vc.define("now", "Int", "(+ "+fr.cur.now+" 1)")
	return r
}

// typed: assume the type facts of a freshly introduced symbolic value.
func (fr *Frame) typed(v Val) Val {
	vc := fr.vc
	vc.assume(fr.curR, vc.typeFacts(v))
	if v.Typ != nil {
		switch v.Typ.Underlying().(type) {
		case *types.Pointer, *types.Map, *types.Chan:
			vc.assume(fr.curR, "(< (birth "+v.L[0]+") "+fr.cur.now+")")
		case *types.Slice:
			vc.assume(fr.curR, "(< (birth "+v.L[0]+") "+fr.cur.now+")")
		case *types.Interface:
			vc.assume(fr.curR, "(< (birth "+v.L[1]+") "+fr.cur.now+")")
		}
	}
	return v
}

// embRef: reference of a by-value struct field inside struct S at ref x.
func (vc *VC) embRef(S types.Type, field string, x string) string {
	name := "emb_" + vc.typeName(S) + "." + field
	first := !vc.declared[q(name)]
	f := vc.declFun(name, []string{"Int"}, "Int")
	inv := vc.declFun("embinv_"+vc.typeName(S)+"."+field, []string{"Int"}, "Int")
	if first {
		// injective, preserves birth time and nil-ness (quantified once, triggered by the term itself)
		vc.emit("(assert (forall ((x Int)) (! (and (= (" + inv + " (" + f + " x)) x) (= (birth (" + f + " x)) (birth x)) (=> (> x 0) (> (" + f + " x) 0)) (=> (= x 0) (= (" + f + " x) 0))) :pattern ((" + f + " x)))))")
	}
	return "(" + f + " " + x + ")"
}

func (vc *VC) elemRef(T types.Type, base, idx string) string {
	name := "elemref_" + vc.typeName(T)
	first := !vc.declared[q(name)]
	f := vc.declFun(name, []string{"Int", "Int"}, "Int")
	i1 := vc.declFun("elemref1_"+vc.typeName(T), []string{"Int"}, "Int")
	i2 := vc.declFun("elemref2_"+vc.typeName(T), []string{"Int"}, "Int")
	if first {
		vc.emit("(assert (forall ((b Int) (i Int)) (! (and (= (" + i1 + " (" + f + " b i)) b) (= (" + i2 + " (" + f + " b i)) i) (= (birth (" + f + " b i)) (birth b)) (> (" + f + " b i) 0)) :pattern ((" + f + " b i)))))")
	}
	return "(" + f + " " + base + " " + idx + ")"
}

// structFieldFam: heap family prefix of a scalar field.
func (vc *VC) fieldFam(S types.Type, field string) string {
	return "H_" + vc.typeName(S) + "." + field
}

// fieldAddr computes &x.f for struct pointer term x of struct type S.
func (vc *VC) fieldAddr(S types.Type, i int, x string) Val {
	st := S.Underlying().(*types.Struct)
	f := st.Field(i)
	ft := f.Type()
	pt := types.NewPointer(ft)
	if vc.flatStruct(ft) {
		return Val{Typ: pt, L: []string{vc.embRef(S, f.Name(), x)}}
	}
	if _, ok := ft.Underlying().(*types.Array); ok {
		return Val{Typ: pt, L: []string{vc.embRef(S, f.Name(), x)}}
	}
	return Val{Typ: pt, L: []string{"(+ " + x + " 0)"}, Loc: &Loc{Fam: vc.fieldFam(S, f.Name()), Idx: []string{x}, Typ: ft}}
}

// loadPtr reads *p for pointer value p (pointee type T).
func (fr *Frame) loadPtr(h *Heap, p Val, T types.Type) Val {
	vc := fr.vc
	if p.Loc != nil {
		return vc.loadLoc(h, p.Loc)
	}
	if vc.flatStruct(T) {
		return vc.loadStruct(h, T, p.L[0])
	}
	if at, ok := T.Underlying().(*types.Array); ok {
		return vc.loadArray(h, at, p.L[0])
	}
	return vc.loadLoc(h, &Loc{Fam: "E_" + vc.typeName(T), Idx: []string{p.L[0], "0"}, Typ: T})
}

func (fr *Frame) storePtr(h *Heap, p Val, T types.Type, v Val) *Heap {
	vc := fr.vc
	if p.Loc != nil {
		return vc.storeLoc(h, p.Loc, v)
	}
	if vc.flatStruct(T) {
		return vc.storeStruct(h, T, p.L[0], v)
	}
	if at, ok := T.Underlying().(*types.Array); ok {
		return vc.storeArray(h, at, p.L[0], v)
	}
	return vc.storeLoc(h, &Loc{Fam: "E_" + vc.typeName(T), Idx: []string{p.L[0], "0"}, Typ: T}, v)
}

func (vc *VC) loadStruct(h *Heap, S types.Type, x string) Val {
	st := S.Underlying().(*types.Struct)
	out := Val{Typ: S}
	for i := 0; i < st.NumFields(); i++ {
		fa := vc.fieldAddr(S, i, x)
		ft := st.Field(i).Type()
		var fv Val
		if fa.Loc != nil {
			fv = vc.loadLoc(h, fa.Loc)
		} else if vc.flatStruct(ft) {
			fv = vc.loadStruct(h, ft, fa.L[0])
		} else {
			fv = vc.loadArray(h, ft.Underlying().(*types.Array), fa.L[0])
		}
		out.L = append(out.L, fv.L...)
	}
	if len(out.L) == 0 {
		out.L = []string{"0"}
	}
	return out
}

func (vc *VC) storeStruct(h *Heap, S types.Type, x string, v Val) *Heap {
	st := S.Underlying().(*types.Struct)
	off := 0
	for i := 0; i < st.NumFields(); i++ {
		ft := st.Field(i).Type()
		n := vc.nleaves(ft)
		if off+n > len(v.L) {
			vc.errorf("storeStruct shape mismatch for %v", S)
			return h
		}
		sub := Val{Typ: ft, L: v.L[off : off+n]}
		fa := vc.fieldAddr(S, i, x)
		if fa.Loc != nil {
			h = vc.storeLoc(h, fa.Loc, sub)
		} else if vc.flatStruct(ft) {
			h = vc.storeStruct(h, ft, fa.L[0], sub)
		} else {
			h = vc.storeArray(h, ft.Underlying().(*types.Array), fa.L[0], sub)
		}
		off += n
	}
	return h
}

// arrays in memory live in the element families E_T at [base][i].
func (vc *VC) loadArray(h *Heap, at *types.Array, base string) Val {
	et := at.Elem()
	out := Val{Typ: at}
	if vc.flatStruct(et) {
		// array of structs by value: not laid out as SMT arrays; unsupported as a value
		vc.note("array of structs loaded by value: contents abstracted")
		for _, l := range vc.shape(at) {
			out.L = append(out.L, vc.fresh("arr", l.Sort))
		}
		return out
	}
	for _, l := range vc.shape(et) {
		fam := "E_" + vc.typeName(et) + l.Suffix
		vc.family(fam, famSortFor(l.Sort, 2))
		out.L = append(out.L, "(select "+vc.lookup(h, fam)+" "+base+")")
	}
	return out
}

func (vc *VC) storeArray(h *Heap, at *types.Array, base string, v Val) *Heap {
	et := at.Elem()
	if vc.flatStruct(et) {
		vc.note("array of structs stored by value: contents abstracted")
		return h
	}
	n := vc.newHeap(hStore)
	n.parent = h
	n.over = map[string]string{}
	for i, l := range vc.shape(et) {
		fam := "E_" + vc.typeName(et) + l.Suffix
		vc.family(fam, famSortFor(l.Sort, 2))
		n.over[fam] = vc.define(fam, vc.famSort[fam], "(store "+vc.lookup(h, fam)+" "+base+" "+v.L[i]+")")
	}
	return n
}

func (fr *Frame) wrapInt(term string, t types.Type) string {
	bits, signed, ok := intInfo(t)
	if !ok {
		return term
	}
	if !signed {
		return "(mod " + term + " " + pow2(bits).String() + ")"
	}
	if bits == 64 {
		fr.vc.note("int/int64 arithmetic treated as mathematical (no wrap) unless 'safety overflow' is requested")
		return term
	}
	h := pow2(bits - 1).String()
	return "(- (mod (+ " + term + " " + h + ") " + pow2(bits).String() + ") " + h + ")"
}

func constInt(v ssa.Value) (*big.Int, bool) {
	c, ok := v.(*ssa.Const)
	if !ok || c.Value == nil || c.Value.Kind() != constant.Int {
		return nil, false
	}
	bi, ok := new(big.Int).SetString(c.Value.ExactString(), 10)
	return bi, ok
}

// bit-level facts used to turn disjoint OR into addition
func lowZeroBits(v ssa.Value) int {
	switch x := v.(type) {
	case *ssa.BinOp:
		switch x.Op {
		case token.SHL:
			if k, ok := constInt(x.Y); ok {
				return lowZeroBits(x.X) + int(k.Int64())
			}
		case token.OR, token.ADD:
			a, b := lowZeroBits(x.X), lowZeroBits(x.Y)
			if a < b {
				return a
			}
			return b
		}
	case *ssa.Convert:
		return lowZeroBits(x.X)
	case *ssa.Const:
		if k, ok := constInt(x); ok && k.Sign() > 0 {
			return int(k.TrailingZeroBits())
		}
		if k, ok := constInt(x); ok && k.Sign() == 0 {
			return 64
		}
	}
	return 0
}

func widthBound(v ssa.Value) int {
	bits, signed, ok := intInfo(v.Type())
	if !ok || signed {
		bits = 64
	}
	switch x := v.(type) {
	case *ssa.BinOp:
		switch x.Op {
		case token.SHL:
			if k, ok := constInt(x.Y); ok {
				w := widthBound(x.X) + int(k.Int64())
				if w < bits {
					return w
				}
			}
		case token.OR, token.XOR:
			a, b := widthBound(x.X), widthBound(x.Y)
			if a < b {
				a = b
			}
			if a < bits {
				return a
			}
		case token.AND:
			a, b := widthBound(x.X), widthBound(x.Y)
			if b < a {
				a = b
			}
			if a < bits {
				return a
			}
		case token.SHR:
			if k, ok := constInt(x.Y); ok {
				w := widthBound(x.X) - int(k.Int64())
				if w < 0 {
					w = 0
				}
				if w < bits {
					return w
				}
			}
		}
	case *ssa.Convert:
		w := widthBound(x.X)
		if _, s, ok := intInfo(x.X.Type()); ok && !s && w < bits {
			return w
		}
	case *ssa.Const:
		if k, ok := constInt(x); ok && k.Sign() >= 0 {
			return k.BitLen()
		}
	}
	return bits
}

func (fr *Frame) binop(in *ssa.BinOp) Val {
	vc := fr.vc
	x, y := fr.get(in.X), fr.get(in.Y)
	t := in.Type()
	bv := func(s string) Val { return Val{Typ: t, L: []string{s}} }
	switch in.Op {
	case token.EQL, token.NEQ:
		var cs []string
		xt := in.X.Type().Underlying()
		switch xt.(type) {
		case *types.Slice:
			// only comparison with nil is legal
			cs = append(cs, eq(x.L[0], y.L[0]))
		case *types.Interface:
			if isNilConst(in.Y) || isNilConst(in.X) {
				cs = append(cs, eq(x.L[0], y.L[0]))
			} else {
				cs = append(cs, eq(x.L[0], y.L[0]), eq(x.L[1], y.L[1]))
			}
		case *types.Array:
			at := xt.(*types.Array)
			if at.Len() <= 32 {
				for i := range x.L {
					for k := int64(0); k < at.Len(); k++ {
						cs = append(cs, eq(fmt.Sprintf("(select %s %d)", x.L[i], k), fmt.Sprintf("(select %s %d)", y.L[i], k)))
					}
				}
			} else {
				for i := range x.L {
					cs = append(cs, eq(x.L[i], y.L[i]))
				}
			}
		default:
			for i := range x.L {
				if i < len(y.L) {
					cs = append(cs, eq(x.L[i], y.L[i]))
				}
			}
		}
		r := and(cs...)
		if in.Op == token.NEQ {
			r = not(r)
		}
		return bv(r)
	case token.LSS, token.LEQ, token.GTR, token.GEQ:
		op := map[token.Token]string{token.LSS: "<", token.LEQ: "<=", token.GTR: ">", token.GEQ: ">="}[in.Op]
		if isStringT(in.X.Type()) {
			f := vc.declFun("strless", []string{"Int", "Int"}, "Bool")
			switch in.Op {
			case token.LSS:
				return bv("(" + f + " " + x.T() + " " + y.T() + ")")
			case token.GTR:
				return bv("(" + f + " " + y.T() + " " + x.T() + ")")
			case token.LEQ:
				return bv(not("(" + f + " " + y.T() + " " + x.T() + ")"))
			default:
				return bv(not("(" + f + " " + x.T() + " " + y.T() + ")"))
			}
		}
		return bv("(" + op + " " + x.T() + " " + y.T() + ")")
	case token.LAND:
		return bv(and(x.T(), y.T()))
	case token.LOR:
		return bv(or(x.T(), y.T()))
	}
	if isStringT(t) && in.Op == token.ADD {
		r := "(strcat " + x.T() + " " + y.T() + ")"
		n := vc.define(fr.vname(in), "Int", r)
		vc.assert("(= (strlen " + n + ") (+ (strlen " + x.T() + ") (strlen " + y.T() + ")))")
		return bv(n)
	}
	bits, signed, isInt := intInfo(t)
	if !isInt {
		// floats etc: uninterpreted
		f := vc.declFun("fop_"+in.Op.String(), []string{"Int", "Int"}, "Int")
		return bv("(" + f + " " + x.T() + " " + y.T() + ")")
	}
	a, b := x.T(), y.T()
	overflowCheck := func(raw string) {
		if signed && fr.wantSafety("overflow") {
			lo := intLit(new(big.Int).Neg(pow2(bits - 1)))
			hi := intLit(new(big.Int).Sub(pow2(bits-1), big.NewInt(1)))
			fr.oblige("arith-overflow", fmt.Sprintf("L%d", fr.pos(in.Pos()).Line), "(and (>= "+raw+" "+lo+") (<= "+raw+" "+hi+"))", nil, in.Pos(), in.String())
		}
	}
	switch in.Op {
	case token.ADD:
		raw := "(+ " + a + " " + b + ")"
		overflowCheck(raw)
		return bv(fr.wrapInt(raw, t))
	case token.SUB:
		raw := "(- " + a + " " + b + ")"
		overflowCheck(raw)
		return bv(fr.wrapInt(raw, t))
	case token.MUL:
		raw := "(* " + a + " " + b + ")"
		overflowCheck(raw)
		return bv(fr.wrapInt(raw, t))
	case token.QUO:
		if fr.wantSafety("div") {
			fr.oblige("safety-div", fmt.Sprintf("L%d", fr.pos(in.Pos()).Line), not(eq(b, "0")), nil, in.Pos(), in.String())
		}
		if !signed {
			return bv("(div " + a + " " + b + ")")
		}
		return bv(fr.wrapInt("(tdiv "+a+" "+b+")", t))
	case token.REM:
		if !signed {
			return bv("(mod " + a + " " + b + ")")
		}
		return bv("(tmod " + a + " " + b + ")")
	case token.SHL:
		if k, ok := constInt(in.Y); ok && k.IsInt64() && k.Int64() < 200 {
			return bv(fr.wrapInt("(* "+a+" "+pow2(int(k.Int64())).String()+")", t))
		}
		r := vc.define(fr.vname(in), "Int", "(bshl "+a+" "+b+")")
		vc.assume(fr.curR, vc.leafFact(r, Leaf{"", "Int", t}))
		return bv(r)
	case token.SHR:
		if k, ok := constInt(in.Y); ok && k.IsInt64() && k.Int64() < 200 {
			return bv("(div " + a + " " + pow2(int(k.Int64())).String() + ")")
		}
		r := vc.define(fr.vname(in), "Int", "(bshr "+a+" "+b+")")
		vc.assume(fr.curR, vc.leafFact(r, Leaf{"", "Int", t}))
		if !signed {
			vc.assume(fr.curR, "(<= "+r+" "+a+")")
		}
		return bv(r)
	case token.AND:
		for _, pr := range [][2]interface{}{{in.Y, a}, {in.X, b}} {
			if k, ok := constInt(pr[0].(ssa.Value)); ok && k.Sign() >= 0 {
				k1 := new(big.Int).Add(k, big.NewInt(1))
				if k1.BitLen()-1 == int(k1.TrailingZeroBits()) && !signed { // k = 2^m - 1
					return bv("(mod " + pr[1].(string) + " " + k1.String() + ")")
				}
				// single high-bits mask like 0xc0 on a byte: x & (2^hi - 2^lo) = (x div 2^lo mod 2^(hi-lo)) * 2^lo
				tz := int(k.TrailingZeroBits())
				sh := new(big.Int).Rsh(k, uint(tz))
				sh1 := new(big.Int).Add(sh, big.NewInt(1))
				if k.Sign() > 0 && sh1.BitLen()-1 == int(sh1.TrailingZeroBits()) && !signed {
					return bv("(* (mod (div " + pr[1].(string) + " " + pow2(tz).String() + ") " + sh1.String() + ") " + pow2(tz).String() + ")")
				}
			}
		}
		r := vc.define(fr.vname(in), "Int", "(band "+a+" "+b+")")
		vc.assume(fr.curR, vc.leafFact(r, Leaf{"", "Int", t}))
		if !signed {
			vc.assume(fr.curR, "(and (<= "+r+" "+a+") (<= "+r+" "+b+"))")
		}
		return bv(r)
	case token.OR, token.XOR:
		if !signed {
			// disjoint bit ranges: OR == ADD
			if lowZeroBits(in.X) >= widthBound(in.Y) || lowZeroBits(in.Y) >= widthBound(in.X) {
				return bv("(+ " + a + " " + b + ")")
			}
		}
		fn := "bor"
		if in.Op == token.XOR {
			fn = "bxor"
		}
		r := vc.define(fr.vname(in), "Int", "("+fn+" "+a+" "+b+")")
		vc.assume(fr.curR, vc.leafFact(r, Leaf{"", "Int", t}))
		if !signed && in.Op == token.OR {
			vc.assume(fr.curR, "(and (>= "+r+" "+a+") (>= "+r+" "+b+") (<= "+r+" (+ "+a+" "+b+")))")
		}
		return bv(r)
	case token.AND_NOT:
		r := vc.define(fr.vname(in), "Int", "(band "+a+" (bxor "+b+" (- 1)))")
		vc.assume(fr.curR, vc.leafFact(r, Leaf{"", "Int", t}))
		if !signed {
			vc.assume(fr.curR, "(<= "+r+" "+a+")")
		}
		return bv(r)
	}
	vc.errorf("%s: unsupported binop %s", fr.fn, in.Op)
	return vc.freshVal("binop", t)
}

func isNilConst(v ssa.Value) bool {
	c, ok := v.(*ssa.Const)
	return ok && c.Value == nil
}

func (fr *Frame) convert(in *ssa.Convert) Val {
	vc := fr.vc
	x := fr.get(in.X)
	from, to := in.X.Type(), in.Type()
	_, _, fi := intInfo(from)
	_, _, ti := intInfo(to)
	switch {
	case fi && ti:
		fb, fs, _ := intInfo(from)
		tb, ts, _ := intInfo(to)
		if fs == ts && tb >= fb || (!fs && ts && tb > fb) {
			return Val{Typ: to, L: []string{x.T()}}
		}
		if ts && tb == 64 {
			// unsigned 64 -> int64 etc: exact wrap
			h := pow2(63).String()
			return Val{Typ: to, L: []string{"(- (mod (+ " + x.T() + " " + h + ") " + pow2(64).String() + ") " + h + ")"}}
		}
		return Val{Typ: to, L: []string{fr.wrapInt(x.T(), to)}}
	case isStringT(to) && fi:
		f := vc.declFun("str_of_rune", []string{"Int"}, "Int")
		return Val{Typ: to, L: []string{"(" + f + " " + x.T() + ")"}}
	case isStringT(to):
		// string(bytes): content-determined, modelled as a function of the slice header and the element heap
		if _, ok := from.Underlying().(*types.Slice); ok {
			fam := "E_uint8"
			vc.family(fam, famSortFor("Int", 2))
			f := vc.declFun("str_of_bytes", []string{"(Array Int Int)", "Int", "Int"}, "Int")
			r := vc.define(fr.vname(in), "Int", "("+f+" (select "+vc.lookup(fr.cur.heap, fam)+" "+x.L[0]+") "+x.L[1]+" "+x.L[2]+")")
			vc.assert("(= (strlen " + r + ") " + x.L[2] + ")")
			return Val{Typ: to, L: []string{r}}
		}
		return Val{Typ: to, L: []string{x.T()}}
	case isStringT(from):
		if _, ok := to.Underlying().(*types.Slice); ok {
			// []byte(s): fresh backing array whose contents are the bytes of s
			base := fr.freshRef(fr.vname(in))
			fam := "E_uint8"
			vc.family(fam, famSortFor("Int", 2))
			f := vc.declFun("bytes_of_str", []string{"Int"}, "(Array Int Int)")
			cur := vc.lookup(fr.cur.heap, fam)
			fr.cur.heap = vc.heapSet(fr.cur.heap, fam, vc.define(fam, vc.famSort[fam], "(store "+cur+" "+base+" ("+f+" "+x.T()+"))"))
			n := "(strlen " + x.T() + ")"
			return Val{Typ: to, L: []string{base, "0", n, n}}
		}
		return Val{Typ: to, L: []string{x.T()}}
	}
	if len(vc.shape(to)) == len(x.L) {
		return Val{Typ: to, L: x.L, Loc: x.Loc}
	}
	f := vc.declFun("conv_"+vc.typeName(from)+"_"+vc.typeName(to), []string{"Int"}, "Int")
	return Val{Typ: to, L: []string{"(" + f + " " + x.T() + ")"}}
}

// payload encodes a concrete value as an interface payload Int.
func (fr *Frame) payload(v Val, t types.Type) string {
	vc := fr.vc
	sh := vc.shape(t)
	if len(sh) == 1 && sh[0].Sort == "Int" {
		return v.L[0]
	}
	if len(sh) == 1 && sh[0].Sort == "Bool" {
		return ite(v.L[0], "1", "0")
	}
	box := vc.fresh("box", "Int")
	vc.assert("(> " + box + " 0)")
	for i, l := range sh {
		f := vc.declFun("unbox_"+vc.typeName(t)+l.Suffix, []string{"Int"}, l.Sort)
		vc.assert("(= (" + f + " " + box + ") " + v.L[i] + ")")
	}
	// boxes of equal contents are equal (value semantics of ==): injective boxing via a pack function when small
	if len(sh) <= 6 {
		args := make([]string, len(sh))
		srt := make([]string, len(sh))
		for i, l := range sh {
			args[i] = v.L[i]
			srt[i] = l.Sort
		}
		p := vc.declFun("pack_"+vc.typeName(t), srt, "Int")
		vc.assert("(= " + box + " (" + p + " " + joinSp(args) + "))")
	}
	return box
}

func joinSp(xs []string) string {
	s := ""
	for i, x := range xs {
		if i > 0 {
			s += " "
		}
		s += x
	}
	return s
}

func (fr *Frame) unpayload(pv string, t types.Type) Val {
	vc := fr.vc
	sh := vc.shape(t)
	if len(sh) == 1 && sh[0].Sort == "Int" {
		return Val{Typ: t, L: []string{pv}}
	}
	if len(sh) == 1 && sh[0].Sort == "Bool" {
		return Val{Typ: t, L: []string{"(= " + pv + " 1)"}}
	}
	out := Val{Typ: t}
	for _, l := range sh {
		f := vc.declFun("unbox_"+vc.typeName(t)+l.Suffix, []string{"Int"}, l.Sort)
		out.L = append(out.L, "("+f+" "+pv+")")
	}
	return out
}

func (fr *Frame) makeInterface(in *ssa.MakeInterface) Val {
	x := fr.get(in.X)
	t := in.X.Type()
	return Val{Typ: in.Type(), L: []string{fr.vc.typeTag(t), fr.payload(x, t)}, Clo: x.Clo}
}

func (fr *Frame) typeAssert(in *ssa.TypeAssert) Val {
	vc := fr.vc
	x := fr.get(in.X)
	var ok string
	var val Val
	if _, isI := in.AssertedType.Underlying().(*types.Interface); isI {
		f := vc.declFun("implements_"+vc.typeName(in.AssertedType), []string{"Int"}, "Bool")
		ok = and(not(eq(x.L[0], "0")), "("+f+" "+x.L[0]+")")
		// a closed source interface: which of its implementors satisfy the asserted interface is a static fact,
		// and the dynamic type is one of them (the closed-world reading interface dispatch already uses)
		if ai, isAI := in.AssertedType.Underlying().(*types.Interface); isAI {
			if impls := vc.implementors(in.X.Type()); len(impls) > 0 {
				var member []string
				for _, T := range impls {
					tag := vc.typeTag(T)
					member = append(member, eq(x.L[0], tag))
					if types.Implements(T, ai) {
						vc.assume(fr.curR, "("+f+" "+tag+")")
					} else {
						vc.assume(fr.curR, not("("+f+" "+tag+")"))
					}
				}
				member = append(member, eq(x.L[0], "0"))
				vc.assume(fr.curR, "(or "+strings.Join(member, " ")+")")
			}
		}
		if types.Identical(in.X.Type(), in.AssertedType) || types.AssignableTo(in.X.Type(), in.AssertedType) {
			ok = not(eq(x.L[0], "0"))
		}
		val = Val{Typ: in.AssertedType, L: []string{x.L[0], x.L[1]}}
	} else {
		ok = eq(x.L[0], vc.typeTag(in.AssertedType))
		val = fr.unpayload(x.L[1], in.AssertedType)
	}
	if !in.CommaOk {
		if fr.wantSafety("typeassert") {
			fr.oblige("safety-typeassert", fmt.Sprintf("L%d", fr.pos(in.Pos()).Line), ok, nil, in.Pos(), in.String())
		}
		fr.vc.assume(fr.curR, ok)
		return val
	}
	// (value, ok): value is zero when !ok
	z := vc.zeroVal(in.AssertedType)
	out := Val{Typ: in.Type()}
	for i := range val.L {
		out.L = append(out.L, ite(ok, val.L[i], z.L[i]))
	}
	out.L = append(out.L, ok)
	return out
}

func (fr *Frame) exec(in ssa.Instruction) {
	vc := fr.vc
	switch x := in.(type) {
	case *ssa.DebugRef, *ssa.Phi, *ssa.Jump, *ssa.If:
		return
	case *ssa.Alloc:
		fr.set(x, fr.alloc(x, x.Type().(*types.Pointer).Elem(), fr.vname(x)))
	case *ssa.BinOp:
		fr.set(x, fr.binop(x))
	case *ssa.UnOp:
		fr.set(x, fr.unop(x))
	case *ssa.Convert:
		fr.set(x, fr.convert(x))
	case *ssa.ChangeType:
		v := fr.get(x.X)
		nv := Val{Typ: x.Type(), L: v.L, Loc: v.Loc, Clo: v.Clo}
		// memory is typed by the pointee type of the ORIGINAL pointer: a pointer converted to a
		// pointer of another named type with the same scalar underlying type (e.g. (*tiebreaker)(c))
		// keeps reading and writing the original cell
		if sp, ok := x.X.Type().Underlying().(*types.Pointer); ok && v.Loc == nil && len(v.L) > 0 {
			if dp, ok := x.Type().Underlying().(*types.Pointer); ok && vc.typeName(sp.Elem()) != vc.typeName(dp.Elem()) {
				if _, basic := sp.Elem().Underlying().(*types.Basic); basic && !vc.flatStruct(sp.Elem()) {
					nv.Loc = &Loc{Fam: "E_" + vc.typeName(sp.Elem()), Idx: []string{v.L[0], "0"}, Typ: sp.Elem()}
				} else {
					vc.errorf("%s: pointer conversion between distinct non-scalar types is outside the typed memory model", fr.pos(x.Pos()))
				}
			}
		}
		fr.set(x, nv)
	case *ssa.ChangeInterface:
		v := fr.get(x.X)
		fr.set(x, Val{Typ: x.Type(), L: v.L, Clo: v.Clo})
	case *ssa.MakeInterface:
		fr.set(x, fr.makeInterface(x))
	case *ssa.TypeAssert:
		fr.set(x, fr.typeAssert(x))
	case *ssa.Extract:
		tv := fr.get(x.Tuple)
		tup := x.Tuple.Type().(*types.Tuple)
		off := 0
		for i := 0; i < x.Index; i++ {
			off += vc.nleaves(tup.At(i).Type())
		}
		n := vc.nleaves(tup.At(x.Index).Type())
		v := Val{Typ: x.Type(), L: tv.L[off : off+n]}
		if x.Index == 0 {
			v.Clo = tv.Clo
		}
		fr.set(x, v)
	case *ssa.Field:
		sv := fr.get(x.X)
		if !vc.flatStruct(x.X.Type()) {
			// field of an opaque library struct value
			f := vc.declFun("field_"+vc.typeName(x.X.Type())+"."+fieldName(x.X.Type(), x.Field), []string{"Int"}, "Int")
			if len(vc.shape(x.Type())) == 1 && vc.shape(x.Type())[0].Sort == "Int" {
				fr.set(x, Val{Typ: x.Type(), L: []string{"(" + f + " " + sv.T() + ")"}})
			} else {
				fr.set(x, fr.typed(vc.freshVal(fr.vname(x), x.Type())))
			}
			return
		}
		a, b := vc.fieldRange(x.X.Type(), x.Field)
		fr.set(x, Val{Typ: x.Type(), L: sv.L[a:b]})
	case *ssa.FieldAddr:
		p := fr.get(x.X)
		S := x.X.Type().Underlying().(*types.Pointer).Elem()
		if fr.wantSafety("nil") {
			fr.oblige("safety-nil", fmt.Sprintf("L%d", fr.pos(x.Pos()).Line), not(eq(p.L[0], "0")), nil, x.Pos(), x.String())
		}
		// taking the address of a field of a nil struct pointer panics when it is used: execution
		// continues only with a non-nil pointer (&p.f with p == nil is legal Go only if never dereferenced;
		// go/ssa emits FieldAddr immediately before the access)
		if fieldAddrIsAccessed(x) {
			vc.assume(fr.curR, not(eq(p.L[0], "0")))
		}
		if !vc.flatStruct(S) {
			// field of opaque struct through pointer
			fam := "H_" + vc.typeName(S) + "." + fieldName(S, x.Field)
			fr.set(x, Val{Typ: x.Type(), L: []string{"(+ " + p.L[0] + " 0)"}, Loc: &Loc{Fam: fam, Idx: []string{p.L[0]}, Typ: x.Type().(*types.Pointer).Elem()}})
			return
		}
		fr.vals[x] = vc.fieldAddr(S, x.Field, p.L[0])
	case *ssa.IndexAddr:
		fr.vals[x] = fr.indexAddr(x)
	case *ssa.Index:
		fr.set(x, fr.index(x))
	case *ssa.Lookup:
		fr.set(x, fr.lookupInstr(x))
	case *ssa.Slice:
		fr.set(x, fr.sliceInstr(x))
	case *ssa.MakeSlice:
		fr.set(x, fr.makeSlice(x))
	case *ssa.MakeMap:
		r := fr.freshRef(fr.vname(x))
		fr.initMap(x.Type(), r)
		fr.set(x, Val{Typ: x.Type(), L: []string{r}})
	case *ssa.MakeChan:
		r := fr.freshRef(fr.vname(x))
		vc.family("Chan.closed", "(Array Int Bool)")
		fr.cur.heap = vc.heapSet(fr.cur.heap, "Chan.closed", vc.define("Chan.closed", "(Array Int Bool)", "(store "+vc.lookup(fr.cur.heap, "Chan.closed")+" "+r+" false)"))
		fr.set(x, Val{Typ: x.Type(), L: []string{r}})
	case *ssa.MakeClosure:
		r := fr.freshRef(fr.vname(x))
		var bs []Val
		for _, b := range x.Bindings {
			bs = append(bs, fr.get(b))
		}
		fr.vals[x] = Val{Typ: x.Type(), L: []string{r}, Clo: &Closure{Fn: x.Fn.(*ssa.Function), Bindings: bs}}
	case *ssa.MapUpdate:
		fr.mapUpdate(x)
	case *ssa.Store:
		p := fr.get(x.Addr)
		v := fr.get(x.Val)
		T := x.Addr.Type().Underlying().(*types.Pointer).Elem()
		fr.siteStore(x, p, v, true)
		fr.cur.heap = fr.storePtr(fr.cur.heap, p, T, v)
		if v.Clo != nil && p.Loc != nil {
			fr.cloStore(p.Loc, v.Clo)
		}
		fr.siteStore(x, p, v, false)
	case *ssa.Call:
		res := fr.call(x, x.Common(), x.Type(), x.Pos())
		fr.set(x, res)
	case *ssa.Defer:
		var args []Val
		for _, a := range x.Call.Args {
			args = append(args, fr.get(a))
		}
		d := deferred{call: &x.Call, args: args, pos: x.Pos(), ins: x, cond: fr.curR}
		if !x.Call.IsInvoke() {
			d.fnv = fr.get(x.Call.Value)
		} else {
			d.fnv = fr.get(x.Call.Value)
		}
		nd := append(append([]deferred{}, fr.cur.defers...), d)
		fr.cur.defers = nd
	case *ssa.RunDefers:
		ds := fr.cur.defers
		fr.cur.defers = nil
		for i := len(ds) - 1; i >= 0; i-- {
			d := ds[i]
			if d.cond == "" || d.cond == "true" || d.cond == fr.curR || d.cond == fr.entryR {
				fr.callDeferred(d)
				continue
			}
			// a defer statement on a conditional path: its call runs only where that path was taken
			before := *fr.cur
			saveR := fr.curR
			fr.curR = vc.define("R.defer", "Bool", and(saveR, d.cond))
			fr.callDeferred(d)
			after := *fr.cur
			fr.curR = saveR
			merged := before
			merged.heap = vc.heapMerge([]string{d.cond}, []*Heap{after.heap, before.heap})
			if after.now != before.now {
				merged.now = vc.define("now", "Int", ite(d.cond, after.now, before.now))
			}
			merged.defers = nil
			fr.cur = &merged
		}
	case *ssa.Go:
		fr.goStmt(x)
	case *ssa.Return:
		var vals []Val
		for _, r := range x.Results {
			vals = append(vals, fr.get(r))
		}
		fr.rets = append(fr.rets, retInfo{cond: fr.curR, vals: vals, heap: fr.cur.heap, now: fr.cur.now, blk: fr.curBlk})
	case *ssa.Panic:
		if fr.wantSafety("panic") || fr.top.contract != nil && fr.top.contract.Safety["nopanic"] {
			fr.oblige("safety-panic", fmt.Sprintf("L%d", fr.pos(x.Pos()).Line), "false", nil, x.Pos(), "panic reachable")
		}
	case *ssa.Range:
		fr.set(x, Val{Typ: x.Type(), L: []string{fr.get(x.X).L[0]}})
		fr.rangeStart(x)
	case *ssa.Next:
		fr.set(x, fr.next(x))
	case *ssa.Select:
		fr.set(x, fr.selectInstr(x))
	case *ssa.Send:
		// message contents on channels are not modelled
	case *ssa.SliceToArrayPointer:
		v := fr.get(x.X)
		fr.set(x, Val{Typ: x.Type(), L: []string{v.L[0]}})
	case *ssa.MultiConvert:
		fr.set(x, fr.typed(vc.freshVal(fr.vname(x), x.Type())))
	default:
		vc.errorf("%s: unsupported instruction %T: %s", fr.fn, in, in)
		if v, ok := in.(ssa.Value); ok {
			fr.set(v, fr.typed(vc.freshVal(fr.vname(v), v.Type())))
		}
	}
}

func fieldName(S types.Type, i int) string {
	return S.Underlying().(*types.Struct).Field(i).Name()
}

// fieldAddrIsAccessed: every use of the address is a load or a store in the same block.
func fieldAddrIsAccessed(x *ssa.FieldAddr) bool {
	refs := x.Referrers()
	if refs == nil || len(*refs) == 0 {
		return false
	}
	for _, r := range *refs {
		switch u := r.(type) {
		case *ssa.UnOp:
			if u.Block() != x.Block() {
				return false
			}
		case *ssa.Store:
			if u.Addr != ssa.Value(x) || u.Block() != x.Block() {
				return false
			}
		case *ssa.DebugRef:
		default:
			return false
		}
	}
	return true
}
