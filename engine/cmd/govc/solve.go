package main

// solve.go: discharge obligations with a portfolio of SMT solvers.

import (
	"strconv"
	"bytes"
	"context"
	"fmt"
	"os"
	"os/exec"
	"path/filepath"
	"strings"
	"sync"
	"time"
)

type SolverCfg struct {
	Name string
	Cmd  func(file string, timeoutS int, seed int) []string
}

var solvers = []SolverCfg{
	{"z3-5.1.0", func(f string, t, seed int) []string {
		return []string{"z3-new", fmt.Sprintf("-T:%d", t), fmt.Sprintf("smt.random_seed=%d", seed), f}
	}},
	{"z3-4.8.12", func(f string, t, seed int) []string {
		return []string{"z3", fmt.Sprintf("-T:%d", t), fmt.Sprintf("smt.random_seed=%d", seed), f}
	}},
	{"cvc5-1.0", func(f string, t, seed int) []string {
		return []string{"cvc5", fmt.Sprintf("--tlimit=%d", t*1000), fmt.Sprintf("--seed=%d", seed), "--produce-models", "--lang=smt2", f}
	}},
}

func (o *Obligation) queryText(withModel bool) string {
	var b bytes.Buffer
	b.WriteString("(set-option :produce-models true)\n(set-logic ALL)\n")
	b.WriteString("; obligation " + o.Name + "\n")
	if o.vc != nil {
		for i, l := range o.vc.lines[:o.Prefix] {
			if o.relaxed && strings.Contains(l, "(forall ") {
				continue
			}
			if o.Known != nil && i >= o.skipFrom && i < o.skipTo {
				continue
			}
			b.WriteString(l)
			b.WriteByte('\n')
		}
	}
	if o.Reach != "" && o.Reach != "true" {
		b.WriteString("(assert " + o.Reach + ")\n")
	}
	if !o.Cover {
		b.WriteString("(assert (not " + o.Goal + "))\n")
	}
	b.WriteString("(check-sat)\n")
	if withModel {
		b.WriteString("(get-model)\n")
	}
	return b.String()
}

type solveOpts struct {
	timeoutS int
	noRetry  bool
	seed     int
	workdir  string
	agree    bool // thorough: two solvers must agree on unsat
	jobs     int
}

func runSolver(ctx context.Context, s SolverCfg, file string, opts solveOpts) (string, string, float64) {
	args := s.Cmd(file, opts.timeoutS, opts.seed)
	cctx, cancel := context.WithTimeout(ctx, time.Duration(opts.timeoutS+5)*time.Second)
	defer cancel()
	cmd := exec.CommandContext(cctx, args[0], args[1:]...)
	var out bytes.Buffer
	cmd.Stdout = &out
	cmd.Stderr = &out
	t0 := time.Now()
	_ = cmd.Run()
	dt := time.Since(t0).Seconds()
	text := out.String()
	first := strings.TrimSpace(strings.SplitN(text, "\n", 2)[0])
	switch first {
	case "sat", "unsat":
		return first, text, dt
	}
	if strings.Contains(first, "error") || strings.HasPrefix(first, "(error") {
		return "error", text, dt
	}
	return "unknown", text, dt
}

func solveOne(o *Obligation, opts solveOpts) {
	if o.Status == "unbound" || (o.Status == "unsat" && (o.Kind == "site-enum" || o.Kind == "owner")) {
		return
	}
	// "opt timeout=N" on a contract: a floor for the per-query budget of that function's obligations
	if o.vc != nil && o.vc.S != nil {
		if ct := o.vc.S.Contracts[o.Fn]; ct != nil {
			if v, err := strconv.Atoi(ct.Opts["timeout"]); err == nil && v > opts.timeoutS {
				opts.timeoutS = v
			}
		}
	}
	if o.Cover {
		// reachability checks are satisfiability queries: quantified background axioms only make
		// the solvers answer "unknown"; they are dropped (the check gets weaker, never wrong-alarming)
		o.relaxed = true
	}
	file := filepath.Join(opts.workdir, sanitizeFile(o.Name)+".smt2")
	if err := os.WriteFile(file, []byte(o.queryText(false)), 0o644); err != nil {
		o.Status = "unknown"
		o.Model = err.Error()
		return
	}
	o.Query = file
	if o.Cover {
		// reachability: any definite answer of any solver counts; unsat (unreachable) must not be
		// missed because one solver gave up, so all solvers are raced with a short timeout
		if opts.timeoutS > 4 && !opts.agree {
			opts.timeoutS = 4
		}
		type r struct{ name, st string }
		ch := make(chan r, len(solvers))
		for _, s := range solvers {
			go func(s SolverCfg) {
				st, _, _ := runSolver(context.Background(), s, mustWrite(opts.workdir, o), opts)
				ch <- r{s.Name, st}
			}(s)
		}
		o.Status = "unknown"
		for range solvers {
			x := <-ch
			if x.st == "unsat" {
				o.Status, o.Backend = "unsat", x.name
			} else if x.st == "sat" && o.Status != "unsat" {
				o.Status, o.Backend = "sat", x.name
			}
		}
		return
	}
	t0 := time.Now()
	defer func() { o.TimeS = time.Since(t0).Seconds() }()
	// stage 1: the fastest solver alone, short timeout
	first := 3
	if opts.timeoutS < first {
		first = opts.timeoutS
	}
	o1 := opts
	o1.timeoutS = first
	st, text, _ := runSolver(context.Background(), solvers[0], file, o1)
	results := map[string]string{}
	if st == "sat" || st == "unsat" {
		results[solvers[0].Name] = st
		if !opts.agree || st == "sat" {
			o.Status, o.Backend = st, solvers[0].Name
			if st == "sat" {
				o.Model = getModel(o, solvers[0], opts)
			}
			return
		}
	}
	if st == "error" {
		o.Model = text
		fmt.Fprintf(os.Stderr, "solver error on %s: %s\n", o.Name, truncate(strings.TrimSpace(text), 300))
	}
	// stage 2: race all
	type r struct {
		name, st, text string
	}
	ctx, cancel := context.WithCancel(context.Background())
	defer cancel()
	ch := make(chan r, len(solvers))
	n := 0
	for _, s := range solvers {
		if _, done := results[s.Name]; done {
			continue
		}
		n++
		go func(s SolverCfg) {
			st, text, _ := runSolver(ctx, s, file, opts)
			ch <- r{s.Name, st, text}
		}(s)
	}
	var errText string
	for i := 0; i < n; i++ {
		x := <-ch
		if x.st == "error" {
			errText += x.name + ": " + truncate(x.text, 400) + "\n"
			continue
		}
		if x.st != "sat" && x.st != "unsat" {
			continue
		}
		results[x.name] = x.st
		if x.st == "sat" {
			o.Status, o.Backend = "sat", x.name
			for _, s := range solvers {
				if s.Name == x.name {
					o.Model = getModel(o, s, opts)
				}
			}
			return
		}
		if !opts.agree || len(results) >= 2 {
			o.Status, o.Backend = "unsat", joinKeys(results)
			return
		}
	}
	if len(results) > 0 {
		// thorough: only one solver answered; others unknown — accept and record
		for k, v := range results {
			o.Status, o.Backend = v, k+" (others unknown)"
		}
		return
	}
	// stage 3: nobody answered within the budget. A query near the limit is decided under some solver seeds
	// and not under others (and slower on a loaded machine); before calling it undecided, race all solvers once
	// more under another seed with twice the budget. Only definite answers are taken.
	if !opts.noRetry && !strings.Contains(o.Name, "[known]") {
		ro := opts
		ro.seed = opts.seed + 7
		ro.timeoutS = opts.timeoutS + opts.timeoutS/2
		ctx3, cancel3 := context.WithCancel(context.Background())
		ch3 := make(chan r, len(solvers))
		for _, sv := range solvers {
			go func(sv SolverCfg) {
				st, text, _ := runSolver(ctx3, sv, file, ro)
				ch3 <- r{sv.Name, st, text}
			}(sv)
		}
		for range solvers {
			x := <-ch3
			if x.st == "unsat" || x.st == "sat" {
				o.Status, o.Backend = x.st, x.name+" (second attempt)"
				if x.st == "sat" {
					for _, sv := range solvers {
						if sv.Name == x.name {
							o.Model = getModel(o, sv, opts)
						}
					}
				}
				cancel3()
				return
			}
		}
		cancel3()
	}
	o.Status = "unknown"
	if errText != "" {
		o.Model = errText
	}
	// model finding: quantified background axioms make solvers answer "unknown" instead of
	// "sat"; retry without them to obtain a candidate counterexample for replay (the
	// obligation stays undischarged either way; a spurious candidate is filtered by the replay).
	if !o.Cover {
		o.relaxed = true
		rf := filepath.Join(opts.workdir, sanitizeFile(o.Name)+".relaxed.smt2")
		if err := os.WriteFile(rf, []byte(o.queryText(false)), 0o644); err == nil {
			ro := opts
			if ro.timeoutS > 5 {
				ro.timeoutS = 5
			}
			if st, _, _ := runSolver(context.Background(), solvers[0], rf, ro); st == "sat" {
				o.Status, o.Backend = "sat", solvers[0].Name+" (quantified axioms dropped for model finding)"
				o.Model = getModel(o, solvers[0], ro)
				return
			}
		}
		o.relaxed = false
	}
}

func joinKeys(m map[string]string) string {
	var ks []string
	for k := range m {
		ks = append(ks, k)
	}
	sortStrings(ks)
	return strings.Join(ks, "+")
}

func getModel(o *Obligation, s SolverCfg, opts solveOpts) string {
	file := filepath.Join(opts.workdir, sanitizeFile(o.Name)+".model.smt2")
	if err := os.WriteFile(file, []byte(o.queryText(true)), 0o644); err != nil {
		return ""
	}
	_, text, _ := runSolver(context.Background(), s, file, opts)
	return text
}

func sanitizeFile(s string) string {
	var b strings.Builder
	for _, r := range s {
		switch {
		case r >= 'a' && r <= 'z', r >= 'A' && r <= 'Z', r >= '0' && r <= '9', r == '_', r == '.', r == '-', r == '#', r == '@':
			b.WriteRune(r)
		default:
			b.WriteRune('_')
		}
	}
	out := b.String()
	if len(out) > 180 {
		out = out[:180]
	}
	return out
}

func solveAll(obls []*Obligation, opts solveOpts) {
	var wg sync.WaitGroup
	sem := make(chan struct{}, opts.jobs)
	for _, o := range obls {
		wg.Add(1)
		sem <- struct{}{}
		go func(o *Obligation) {
			defer wg.Done()
			defer func() { <-sem }()
			solveOne(o, opts)
		}(o)
	}
	wg.Wait()
}

func mustWrite(dir string, o *Obligation) string {
	file := filepath.Join(dir, sanitizeFile(o.Name)+".cover.smt2")
	os.WriteFile(file, []byte(o.queryText(false)), 0o644)
	return file
}
