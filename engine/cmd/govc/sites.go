package main

// sites.go: loop invariants and site clauses (assertions / ghost updates bound
// to the k-th call of a callee or the k-th store to a field).

import (
	"os"
	"fmt"
	"go/token"
	"go/types"
	"sort"
	"strings"

	"golang.org/x/tools/go/ssa"
)

func (fr *Frame) envHere(what string) *Env {
	e := &Env{vc: fr.vc, fr: fr, vars: map[string]Val{}, heap: fr.cur.heap, now: fr.cur.now, blk: fr.curBlk, idx: fr.curIdx, reach: fr.curR, what: what}
	if fr.entry != nil {
		e.old = fr.entry.heap
	}
	if fr.fn.Pkg != nil {
		e.pkg = fr.fn.Pkg.Pkg
	} else if fr.top.contract != nil {
		e.pkg = fr.contractPkg(fr.top.contract)
	}
	// entry values of (possibly reassigned) parameters: <name>0
	for i, p := range fr.fn.Params {
		if i < len(fr.params) {
			e.vars[p.Name()+"0"] = fr.params[i]
		}
	}
	return e
}

func (fr *Frame) loopModSet(li *loopInfo) map[string]bool {
	vc := fr.vc
	set := map[string]bool{}
	for b := range li.blocks {
		vc.modSetBlock(fr.fn, b, set, map[*ssa.Function]bool{})
		for _, in := range b.Instrs {
			// the set of keys a map range inside the loop has yielded
			if nx, ok := in.(*ssa.Next); ok && !nx.IsString {
				set[fr.rvFam(nx.Iter.(*ssa.Range))] = true
			}
		}
	}
	// ghost state assigned by site clauses that can fire inside the loop
	reachesTop := fr == fr.top || set["*"]
	for p := fr.fn.Parent(); p != nil; p = p.Parent() {
		if p == fr.top.fn {
			reachesTop = true
		}
	}
	for _, own := range []*Frame{fr, fr.top} {
		if own == fr.top && own != fr && !reachesTop {
			// (the top function's site clauses apply here only if this is a closure nested in it,
			// or the loop makes calls the generator cannot resolve, through which such a closure might run)
			continue
		}
		oc := own.contract
		if oc == nil {
			oc = own.ownContract()
		}
		if oc == nil {
			continue
		}
		var clauses []*SiteClause
		precise := false
		if own == fr {
			clauses, precise = fr.ghostClausesIn(li, oc)
		}
		if !precise {
			clauses = nil
			for i := range oc.Sites {
				if oc.Sites[i].What == "ghost" {
					clauses = append(clauses, &oc.Sites[i])
				}
			}
		}
		for _, sc := range clauses {
			src := ""
			if sc.GhostLHS != nil {
				src = strings.TrimSpace(sc.GhostLHS.Src)
			}
			if i := strings.LastIndex(src, "."); i >= 0 {
				// obj.ghostField: every declared ghost field of that name
				for k := range vc.S.Ghosts {
					if strings.HasSuffix(k, "."+src[i+1:]) {
						set["H_"+k] = true
					}
				}
				continue
			}
			for _, gv := range oc.GhostVars {
				if gv.Name == src {
					set["GV_"+funcKey(own.fn)+"."+gv.Name] = true
				}
			}
		}
	}
	if os.Getenv("GOVC_DEBUG_MOD") != "" {
		var ks []string
		for k := range set {
			ks = append(ks, k)
		}
		sort.Strings(ks)
		fmt.Fprintf(os.Stderr, "LOOPMOD %s header b%d: %v\n", fr.fn, li.header.Index, ks)
	}
	return set
}

// ghostClausesIn: the ghost site clauses of ct that match a site inside loop li of this frame's
// function. precise=false if the loop may run code of a nested closure (whose sites also fire
// clauses of this contract): a closure is created or called, or a function value is passed on.
func (fr *Frame) ghostClausesIn(li *loopInfo, ct *Contract) ([]*SiteClause, bool) {
	ords := fr.siteOrdinals()
	pords := fr.pseudoOrdinals()
	var out []*SiteClause
	seen := map[*SiteClause]bool{}
	match := func(kind, name string, ord int) {
		for i := range ct.Sites {
			sc := &ct.Sites[i]
			if sc.What != "ghost" || sc.Kind != kind || sc.Target != name || (sc.Ord != 0 && sc.Ord != ord) {
				continue
			}
			if !seen[sc] {
				seen[sc] = true
				out = append(out, sc)
			}
		}
	}
	for b := range li.blocks {
		for _, in := range b.Instrs {
			switch x := in.(type) {
			case *ssa.MakeClosure:
				return nil, false
			case ssa.CallInstruction:
				c := x.Common()
				if !c.IsInvoke() {
					if _, isB := c.Value.(*ssa.Builtin); !isB {
						if sf := c.StaticCallee(); sf == nil || sf.Parent() != nil {
							return nil, false
						}
					}
				}
				for _, a := range c.Args {
					if _, isF := a.Type().Underlying().(*types.Signature); isF {
						return nil, false
					}
				}
				match("call", calleeName(c), ords[c])
			case *ssa.Store:
				if fa, ok := x.Addr.(*ssa.FieldAddr); ok {
					match("store", fieldName(fa.X.Type().Underlying().(*types.Pointer).Elem(), fa.Field), ords[x])
				}
			case *ssa.Select:
				match("call", "select", pords[x])
			case *ssa.UnOp:
				if x.Op == token.ARROW {
					match("call", "recv", pords[x])
				}
			}
		}
	}
	return out, true
}

// ownContract: the contract of an inlined closure (nil for ordinary inlined functions,
// whose contracts are applied at the call instead).
func (fr *Frame) ownContract() *Contract {
	if fr.parent == nil || fr.fn.Parent() == nil {
		return nil
	}
	ct := fr.vc.S.Contracts[funcKey(fr.fn)]
	if ct == nil || ct.NoBody {
		return nil
	}
	return ct
}

// invariants of loop (by ordinal) from the contract under verification (or of
// the inlined closure's own contract)
func (fr *Frame) invariants(h *ssa.BasicBlock) []Clause {
	if fr.contract != nil {
		return fr.contract.LoopInv[fr.loopOrd[h]]
	}
	if own := fr.ownContract(); own != nil {
		return own.LoopInv[fr.loopOrd[h]]
	}
	return nil
}

// checkInvariant: obligations for the invariant of loop header h along edge from->h.
func (fr *Frame) checkInvariant(h, from *ssa.BasicBlock, kind string) {
	invs := fr.invariants(h)
	if len(invs) == 0 {
		return
	}
	st := fr.out[from]
	if st == nil {
		return
	}
	vc := fr.vc
	saveCur, saveR, saveB, saveI := fr.cur, fr.curR, fr.curBlk, fr.curIdx
	fr.cur = &State{heap: st.heap, now: st.now}
	fr.curR = fr.edgeCond(from, h)
	env := fr.envHere(fmt.Sprintf("loop %d invariant of %s", fr.loopOrd[h], funcKey(fr.fn)))
	env.blk, env.idx = from, len(from.Instrs)
	env.loopHdr = h
	// phi values along this edge
	for _, in := range h.Instrs {
		phi, ok := in.(*ssa.Phi)
		if !ok {
			break
		}
		for k, p := range h.Preds {
			if p == from {
				if phi.Comment != "" {
					env.vars[phi.Comment] = fr.get(phi.Edges[k])
				}
			}
		}
	}
	for i, c := range invs {
		lbl := c.Label
		if lbl == "" {
			lbl = fmt.Sprint(i + 1)
		}
		g := env.evalGoal(c.E).T()
		fr.oblige(kind, fmt.Sprintf("loop%d.%s.from-b%d", fr.loopOrd[h], lbl, from.Index), g, c.Props, token.NoPos, "invariant "+c.Src)
	}
	// variant (decreases) on back edges
	if kind == "inv-preserve" && fr.contract != nil {
		if d := fr.contract.LoopDec[fr.loopOrd[h]]; d != nil {
			after := env.eval(d.E).T()
			henv := fr.headerEnv(h)
			before := henv.eval(d.E).T()
			fr.oblige("variant", fmt.Sprintf("loop%d.from-b%d", fr.loopOrd[h], from.Index), "(and (< "+after+" "+before+") (>= "+before+" 0))", d.Props, token.NoPos, "decreases "+d.Src)
		}
	}
	_ = vc
	fr.cur, fr.curR, fr.curBlk, fr.curIdx = saveCur, saveR, saveB, saveI
}

var headerStates = map[*Frame]map[*ssa.BasicBlock]*State{}

func (fr *Frame) headerEnv(h *ssa.BasicBlock) *Env {
	st := headerStates[fr][h]
	e := &Env{vc: fr.vc, fr: fr, vars: map[string]Val{}, heap: st.heap, now: st.now, blk: h, idx: 0, what: "loop header", reach: fr.reach[h], loopHdr: h}
	if fr.entry != nil {
		e.old = fr.entry.heap
	}
	if fr.fn.Pkg != nil {
		e.pkg = fr.fn.Pkg.Pkg
	} else if fr.top.contract != nil {
		e.pkg = fr.contractPkg(fr.top.contract)
	}
	// entry values of (possibly reassigned) parameters: <name>0
	for i, p := range fr.fn.Params {
		if i < len(fr.params) {
			e.vars[p.Name()+"0"] = fr.params[i]
		}
	}
	return e
}

func (fr *Frame) assumeInvariant(h *ssa.BasicBlock) {
	if headerStates[fr] == nil {
		headerStates[fr] = map[*ssa.BasicBlock]*State{}
	}
	headerStates[fr][h] = &State{heap: fr.cur.heap, now: fr.cur.now}
	invs := fr.invariants(h)
	env := fr.headerEnv(h)
	env.what = fmt.Sprintf("loop %d invariant of %s", fr.loopOrd[h], funcKey(fr.fn))
	for _, c := range invs {
		t := env.evalAssume(c.E).T()
		if os.Getenv("GOVC_DEBUG_INV") != "" {
			fmt.Fprintf(os.Stderr, "INV %s: %s\n", c.Src, t)
		}
		fr.vc.assume(fr.curR, t)
	}
}

// ---------------------------------------------------------------------------
// site clauses

func calleeName(c *ssa.CallCommon) string {
	if c.IsInvoke() {
		return c.Method.Name()
	}
	if b, ok := c.Value.(*ssa.Builtin); ok {
		return b.Name()
	}
	if f := c.StaticCallee(); f != nil {
		n := f.Name()
		if i := strings.Index(n, "["); i > 0 {
			n = n[:i] // an instance of a generic function is addressed by the generic's name
		}
		return n
	}
	// dynamic: name of the field/variable holding the func
	switch v := c.Value.(type) {
	case *ssa.FreeVar:
		return v.Name()
	case *ssa.Parameter:
		return v.Name()
	case *ssa.UnOp:
		if fa, ok := v.X.(*ssa.FieldAddr); ok {
			return fieldName(fa.X.Type().Underlying().(*types.Pointer).Elem(), fa.Field)
		}
		if fv, ok := v.X.(*ssa.FreeVar); ok {
			return fv.Name()
		}
	case *ssa.MakeClosure:
		return v.Fn.Name()
	case *ssa.Field:
		return fieldName(v.X.Type(), v.Field)
	case *ssa.Extract:
		return "extract"
	}
	return c.Value.Name()
}

// siteContract: the contract whose site clauses apply to this frame: its own, or — for a
// closure lexically nested in the function under verification that is executed inline — the
// top function's (ordinals then count sites inside the closure).
func (fr *Frame) siteContract() *Contract {
	if fr.contract != nil {
		return fr.contract
	}
	if own := fr.ownContract(); own != nil {
		// a closure with a contract of its own, executed inline: its ghost code runs with it
		return own
	}
	if fr.top.contract != nil {
		for p := fr.fn.Parent(); p != nil; p = p.Parent() {
			if p == fr.top.fn {
				return fr.top.contract
			}
		}
	}
	return nil
}

func (fr *Frame) siteCall(c *ssa.CallCommon, pos token.Pos, args []Val, before bool, res *Val) {
	ct := fr.siteContract()
	if ct == nil || len(ct.Sites) == 0 {
		return
	}
	name := calleeName(c)
	ord := fr.siteOrdinals()[c]
	for i := range ct.Sites {
		sc := &ct.Sites[i]
		if sc.Kind != "call" || sc.Target != name || (sc.Ord != 0 && sc.Ord != ord) {
			continue
		}
		if (sc.When == "before") != before {
			continue
		}
		fr.siteMatched(sc)
		env := fr.envHere(fmt.Sprintf("site call %s#%d of %s", name, ord, funcKey(fr.fn)))
		for j, a := range args {
			env.vars[fmt.Sprintf("arg%d", j)] = a
		}
		// "spawned": the call is a go statement (the callee runs concurrently, not before the next statement)
		if fr.inGo {
			env.vars["spawned"] = boolVal("true")
		} else {
			env.vars["spawned"] = boolVal("false")
		}
		if c.IsInvoke() {
			env.vars["recv"] = fr.get(c.Value)
		} else if sf := c.StaticCallee(); sf != nil && sf.Signature.Recv() != nil && len(args) > 0 {
			// a static method call: the receiver is the first argument
			env.vars["recv"] = args[0]
		}
		if res != nil {
			bindResults(fr.vc, env, c.Signature(), nil, padResult(fr.vc, *res, c.Signature()))
		}
		fr.runSite(sc, env, pos, fmt.Sprintf("%s#%d", name, ord))
	}
}

func padResult(vc *VC, res Val, sig *types.Signature) Val {
	n := 0
	for i := 0; i < sig.Results().Len(); i++ {
		n += vc.nleaves(sig.Results().At(i).Type())
	}
	if len(res.L) >= n {
		return res
	}
	out := res
	for len(out.L) < n {
		out.L = append(out.L, "0")
	}
	return out
}

var siteHits = map[*SiteClause]int{}

func (fr *Frame) siteMatched(sc *SiteClause) { siteHits[sc]++ }

func (fr *Frame) runSite(sc *SiteClause, env *Env, pos token.Pos, lbl string) {
	vc := fr.vc
	switch sc.What {
	case "assert":
		g := env.evalGoal(sc.Clause.E).T()
		l := sc.Clause.Label
		if l == "" {
			l = lbl
		}
		o := fr.oblige("site-assert", l, g, sc.Clause.Props, pos, sc.Clause.Src)
		a := len(vc.lines)
		vc.assume(fr.curR, g)
		if o != nil {
			// a known finding may be recorded against a site assertion (witness split): the split
			// obligations are posed over the whole text, minus the assumption of this very goal
			o.env = env
			o.skipFrom, o.skipTo = a, len(vc.lines)
		}
	case "assume":
		vc.note("site assume in contract of " + funcKey(fr.fn) + ": " + sc.Clause.Src)
		vc.assume(fr.curR, env.evalAssume(sc.Clause.E).T())
	case "ghost":
		rhs := env.eval(sc.GhostRHS)
		fr.ghostAssign(sc.GhostLHS, rhs, env)
	}
}

// ghostAssign: lhs must be obj.ghostField
func (fr *Frame) ghostAssign(lhs *SExpr, rhs Val, env *Env) {
	vc := fr.vc
	sel, ok := lhs.Go.(interface{ End() token.Pos })
	_ = sel
	if lhs.Kind != "go" || !ok {
		vc.errorf("ghost update: bad left-hand side %s", lhs.Src)
		return
	}
	src := strings.TrimSpace(lhs.Src)
	i := strings.LastIndex(src, ".")
	if i < 0 {
		for _, own := range []*Frame{fr, fr.top} {
			oc := own.contract
			if oc == nil {
				oc = own.ownContract()
			}
			if oc == nil {
				continue
			}
			for _, gv := range oc.GhostVars {
				if gv.Name == src {
					fam := "GV_" + funcKey(own.fn) + "." + src
					vc.family(fam, specSort(gv.GType))
					fr.cur.heap = vc.heapSet(fr.cur.heap, fam, rhs.T())
					if specSort(gv.GType) == "Int" {
						fr.addHint(rhs.T())
					}
					return
				}
			}
		}
		vc.errorf("ghost update: left-hand side must be obj.field or a ghostvar: %s", src)
		return
	}
	objE, err := parseSExpr(src[:i])
	if err != nil {
		vc.errorf("ghost update: %v", err)
		return
	}
	obj := env.eval(objE)
	if obj.Typ == nil {
		vc.errorf("ghost update: untyped object in %s", src)
		return
	}
	T := obj.Typ
	if pt, ok := T.Underlying().(*types.Pointer); ok {
		T = pt.Elem()
	}
	gf, ok := vc.S.Ghosts[vc.typeName(T)+"."+src[i+1:]]
	if _, isI := T.Underlying().(*types.Interface); isI && !ok {
		if g2, ok2 := vc.S.Ghosts["iface."+src[i+1:]]; ok2 && len(obj.L) == 2 {
			fam := "H_iface." + g2.Name
			srt := specSort(g2.GType)
			vc.family(fam, "(Array Int "+srt+")")
			cur := vc.lookup(fr.cur.heap, fam)
			fr.cur.heap = vc.heapSet(fr.cur.heap, fam, vc.define(fam, vc.famSort[fam], "(store "+cur+" "+obj.L[1]+" "+rhs.T()+")"))
			return
		}
	}
	if !ok {
		vc.errorf("ghost update: %s is not a declared ghost field", src)
		return
	}
	fam := "H_" + vc.typeName(T) + "." + gf.Name
	srt := specSort(gf.GType)
	vc.family(fam, "(Array Int "+srt+")")
	cur := vc.lookup(fr.cur.heap, fam)
	key := obj.L[0]
	if _, isI := T.Underlying().(*types.Interface); isI && len(obj.L) == 2 {
		key = obj.L[1] // ghost state of an interface value hangs off its payload
	}
	fr.cur.heap = vc.heapSet(fr.cur.heap, fam, vc.define(fam, vc.famSort[fam], "(store "+cur+" "+key+" "+rhs.T()+")"))
}

func (fr *Frame) siteStore(in *ssa.Store, p, v Val, before bool) {
	ct := fr.siteContract()
	if ct == nil || len(ct.Sites) == 0 {
		return
	}
	fa, ok := in.Addr.(*ssa.FieldAddr)
	if !ok {
		return
	}
	name := fieldName(fa.X.Type().Underlying().(*types.Pointer).Elem(), fa.Field)
	ord := fr.siteOrdinals()[in]
	for i := range ct.Sites {
		sc := &ct.Sites[i]
		if sc.Kind != "store" || sc.Target != name || (sc.Ord != 0 && sc.Ord != ord) {
			continue
		}
		if (sc.When == "before") != before {
			continue
		}
		fr.siteMatched(sc)
		env := fr.envHere(fmt.Sprintf("site store %s#%d of %s", name, ord, funcKey(fr.fn)))
		env.vars["value"] = v
		env.vars["object"] = fr.get(fa.X)
		fr.runSite(sc, env, in.Pos(), fmt.Sprintf("%s#%d", name, ord))
	}
}

func (fr *Frame) siteMapUpdate(in *ssa.MapUpdate, before bool) {}

// siteOrdinals numbers call sites per callee name and store sites per field
// name in SOURCE order (position), independent of the traversal order.
func (fr *Frame) siteOrdinals() map[interface{}]int {
	if fr.siteOrd != nil {
		return fr.siteOrd
	}
	type site struct {
		key  interface{}
		name string
		pos  token.Pos
		seq  int
	}
	var sites []site
	seq := 0
	for _, b := range fr.fn.Blocks {
		for _, in := range b.Instrs {
			seq++
			switch x := in.(type) {
			case ssa.CallInstruction:
				p := x.Pos()
				if p == token.NoPos {
					p = x.Common().Pos()
				}
				sites = append(sites, site{x.Common(), "call " + calleeName(x.Common()), p, seq})
			case *ssa.Store:
				if fa, ok := x.Addr.(*ssa.FieldAddr); ok {
					sites = append(sites, site{x, "store " + fieldName(fa.X.Type().Underlying().(*types.Pointer).Elem(), fa.Field), x.Pos(), seq})
				}
			}
		}
	}
	sort.SliceStable(sites, func(i, j int) bool {
		if sites[i].pos != sites[j].pos {
			return sites[i].pos < sites[j].pos
		}
		return sites[i].seq < sites[j].seq
	})
	fr.siteOrd = map[interface{}]int{}
	cnt := map[string]int{}
	for _, s := range sites {
		cnt[s.name]++
		fr.siteOrd[s.key] = cnt[s.name]
	}
	return fr.siteOrd
}

// sitePseudo runs site clauses attached to non-call program points that are
// addressed like calls: "select" (a select statement; result0 = chosen case
// index, -1 = default) and "recv" (a blocking channel receive; arg0 = channel).
func (fr *Frame) sitePseudo(key interface{}, name string, pos token.Pos, args []Val, results []Val, before bool) {
	ct := fr.siteContract()
	if ct == nil || len(ct.Sites) == 0 {
		return
	}
	ord := fr.pseudoOrdinals()[key]
	for i := range ct.Sites {
		sc := &ct.Sites[i]
		if sc.Kind != "call" || sc.Target != name || (sc.Ord != 0 && sc.Ord != ord) {
			continue
		}
		if (sc.When == "before") != before {
			continue
		}
		fr.siteMatched(sc)
		env := fr.envHere(fmt.Sprintf("site %s#%d of %s", name, ord, funcKey(fr.fn)))
		for j, a := range args {
			env.vars[fmt.Sprintf("arg%d", j)] = a
		}
		for j, r := range results {
			env.vars[fmt.Sprintf("result%d", j)] = r
			if j == 0 {
				env.vars["result"] = r
			}
		}
		fr.runSite(sc, env, pos, fmt.Sprintf("%s#%d", name, ord))
	}
}

func (fr *Frame) pseudoOrdinals() map[interface{}]int {
	if fr.pseudoOrd != nil {
		return fr.pseudoOrd
	}
	type site struct {
		key  interface{}
		name string
		pos  token.Pos
		seq  int
	}
	var sites []site
	seq := 0
	for _, b := range fr.fn.Blocks {
		for _, in := range b.Instrs {
			seq++
			switch x := in.(type) {
			case *ssa.Select:
				sites = append(sites, site{x, "select", x.Pos(), seq})
			case *ssa.UnOp:
				if x.Op == token.ARROW {
					sites = append(sites, site{x, "recv", x.Pos(), seq})
				}
			}
		}
	}
	sort.SliceStable(sites, func(i, j int) bool {
		if sites[i].pos != sites[j].pos {
			return sites[i].pos < sites[j].pos
		}
		return sites[i].seq < sites[j].seq
	})
	fr.pseudoOrd = map[interface{}]int{}
	cnt := map[string]int{}
	for _, s := range sites {
		cnt[s.name]++
		fr.pseudoOrd[s.key] = cnt[s.name]
	}
	return fr.pseudoOrd
}
