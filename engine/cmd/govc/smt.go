package main

// smt.go: the verification-condition context: SMT text accumulation, sorts,
// value shapes (how a Go type is laid out as SMT leaves), the persistent heap.

import (
	"fmt"
	"go/token"
	"go/types"
	"math/big"
	"regexp"
	"sort"
	"strings"
)

type Leaf struct {
	Suffix string
	Sort   string
	GoT    types.Type // leaf's Go type (for range facts); nil for synthetic leaves
}

type Loc struct {
	Fam string   // family prefix (leaf suffix appended per leaf)
	Idx []string // index terms (0 for globals, 1 for H_/cells, 2 for E_)
	Typ types.Type
}

type Closure struct {
	Fn       interface{} // *ssa.Function
	Bindings []Val
}

type Val struct {
	Typ types.Type
	L   []string
	S   []string // sorts parallel to L (only needed when Typ == nil)
	Loc *Loc
	Clo *Closure
}

func (v Val) T() string {
	if len(v.L) == 0 {
		return "0"
	}
	return v.L[0]
}

type Obligation struct {
	Name   string
	Props  []string
	Kind   string
	Fn     string
	Prefix int
	Reach  string
	Goal   string
	Src    string
	Pos    token.Position
	// set by the solver stage
	Status  string // unsat (discharged) | sat | unknown
	Backend string
	TimeS   float64
	Model   string
	Query   string // path of the query file (kept only for failures)
	Cover   bool   // cover obligation: expects SAT
	Known   *KnownFinding
	vc      *VC
	env     *Env
	fr      *Frame
	knownPart string
	skipFrom, skipTo int // lines left out of the query of a split (known-finding) site assertion: the assumption of its own goal
	relaxed   bool
}

type VC struct {
	P        *Program
	S        *Specs
	lines    []string
	declared map[string]bool
	famSort  map[string]string
	obls     []*Obligation
	nfresh   int
	tags     map[string]int
	tagNames []string
	strLits  map[string]string
	heapID   int
	notes    map[string]bool // trusted-base notes gathered while generating
	errors   []string
	specDone map[string]bool
	oblNames map[string]int
	curFn    string
}

func newVC(P *Program, S *Specs) *VC {
	vc := &VC{P: P, S: S, declared: map[string]bool{}, famSort: map[string]string{}, tags: map[string]int{},
		strLits: map[string]string{}, notes: map[string]bool{}, specDone: map[string]bool{}, oblNames: map[string]int{}}
	vc.lines = append(vc.lines,
		"(declare-fun birth (Int) Int)",
		"(declare-fun strlen (Int) Int)",
		"(declare-fun strbyte (Int Int) Int)",
		"(declare-fun strcat (Int Int) Int)",
		"(declare-const str_empty Int)",
		"(assert (= (strlen str_empty) 0))",
		"(define-fun tdiv ((a Int) (b Int)) Int (ite (>= a 0) (ite (> b 0) (div a b) (- (div a (- b)))) (ite (> b 0) (- (div (- a) b)) (div (- a) (- b)))))",
		"(define-fun tmod ((a Int) (b Int)) Int (- a (* b (tdiv a b))))",
		"(define-fun imin ((a Int) (b Int)) Int (ite (<= a b) a b))",
		"(define-fun imax ((a Int) (b Int)) Int (ite (>= a b) a b))",
		"(declare-fun band (Int Int) Int)",
		"(declare-fun bor (Int Int) Int)",
		"(declare-fun bxor (Int Int) Int)",
		"(declare-fun bshl (Int Int) Int)",
		"(declare-fun bshr (Int Int) Int)",
	)
	return vc
}

func (vc *VC) note(s string) { vc.notes[s] = true }

func (vc *VC) errorf(f string, a ...any) {
	m := fmt.Sprintf(f, a...)
	for _, e := range vc.errors {
		if e == m {
			return
		}
	}
	vc.errors = append(vc.errors, m)
}

func (vc *VC) emit(s string) { vc.lines = append(vc.lines, s) }

func (vc *VC) assert(t string) {
	if t == "true" {
		return
	}
	vc.lines = append(vc.lines, "(assert "+t+")")
}

func (vc *VC) assume(reach, t string) {
	if t == "true" {
		return
	}
	if reach == "true" {
		vc.assert(t)
	} else {
		vc.assert("(=> " + reach + " " + t + ")")
	}
}

func (vc *VC) freshName(hint string) string {
	vc.nfresh++
	return fmt.Sprintf("%s!%d", sanitize(hint), vc.nfresh)
}

func sanitize(s string) string {
	var b strings.Builder
	for _, r := range s {
		switch {
		case r >= 'a' && r <= 'z', r >= 'A' && r <= 'Z', r >= '0' && r <= '9', r == '_', r == '.', r == '$', r == '!', r == '@', r == '#', r == '-', r == '*', r == '[', r == ']', r == '/', r == '<', r == '>', r == '+':
			b.WriteRune(r)
		case r == '(' || r == ')' || r == ' ' || r == ',' || r == '{' || r == '}' || r == ';':
			b.WriteRune('_')
		default:
			b.WriteRune('_')
		}
	}
	return b.String()
}

func q(s string) string {
	if strings.HasPrefix(s, "|") {
		return s
	}
	return "|" + s + "|"
}

func (vc *VC) declConst(name, srt string) string {
	n := q(name)
	if !vc.declared[n] {
		vc.declared[n] = true
		vc.emit("(declare-fun " + n + " () " + srt + ")")
	}
	return n
}

func (vc *VC) declFun(name string, args []string, ret string) string {
	n := q(name)
	if !vc.declared[n] {
		vc.declared[n] = true
		vc.emit("(declare-fun " + n + " (" + strings.Join(args, " ") + ") " + ret + ")")
	}
	return n
}

func (vc *VC) fresh(hint, srt string) string {
	return vc.declConst(vc.freshName(hint), srt)
}

// define gives a name to a term (keeps queries readable and small).
func (vc *VC) define(hint, srt, term string) string {
	n := vc.fresh(hint, srt)
	vc.assert("(= " + n + " " + term + ")")
	return n
}

func intLit(v *big.Int) string {
	if v.Sign() < 0 {
		return "(- " + new(big.Int).Neg(v).String() + ")"
	}
	return v.String()
}

func pow2(n int) *big.Int { return new(big.Int).Lsh(big.NewInt(1), uint(n)) }

func and(ts ...string) string {
	var xs []string
	for _, t := range ts {
		if t == "true" || t == "" {
			continue
		}
		if t == "false" {
			return "false"
		}
		xs = append(xs, t)
	}
	switch len(xs) {
	case 0:
		return "true"
	case 1:
		return xs[0]
	}
	return "(and " + strings.Join(xs, " ") + ")"
}

func or(ts ...string) string {
	var xs []string
	for _, t := range ts {
		if t == "false" || t == "" {
			continue
		}
		if t == "true" {
			return "true"
		}
		xs = append(xs, t)
	}
	switch len(xs) {
	case 0:
		return "false"
	case 1:
		return xs[0]
	}
	return "(or " + strings.Join(xs, " ") + ")"
}

func not(t string) string {
	switch t {
	case "true":
		return "false"
	case "false":
		return "true"
	}
	if strings.HasPrefix(t, "(not ") && strings.HasSuffix(t, ")") && matchingParen(t, 0) == len(t)-1 {
		return t[5 : len(t)-1]
	}
	return "(not " + t + ")"
}

func imp(a, b string) string {
	if a == "true" {
		return b
	}
	if b == "true" || a == "false" {
		return "true"
	}
	return "(=> " + a + " " + b + ")"
}

func ite(c, a, b string) string {
	if c == "true" || a == b {
		return a
	}
	if c == "false" {
		return b
	}
	return "(ite " + c + " " + a + " " + b + ")"
}

func eq(a, b string) string {
	if a == b {
		return "true"
	}
	return "(= " + a + " " + b + ")"
}

// ---------------------------------------------------------------------------
// type names, tags, shapes

var byteRe = regexp.MustCompile(`\bbyte\b`)
var runeRe = regexp.MustCompile(`\brune\b`)
var anyRe = regexp.MustCompile(`\bany\b`)

func (vc *VC) typeName(t types.Type) string {
	s := types.TypeString(t, func(p *types.Package) string { return p.Name() })
	if strings.Contains(s, "byte") {
		s = byteRe.ReplaceAllString(s, "uint8")
	}
	if strings.Contains(s, "rune") {
		s = runeRe.ReplaceAllString(s, "int32")
	}
	if strings.Contains(s, "any") {
		s = anyRe.ReplaceAllString(s, "interface{}")
	}
	return s
}

func (vc *VC) typeTag(t types.Type) string {
	n := vc.typeName(t)
	if k, ok := vc.tags[n]; ok {
		return fmt.Sprint(k)
	}
	k := len(vc.tags) + 1
	vc.tags[n] = k
	vc.tagNames = append(vc.tagNames, n)
	return fmt.Sprint(k)
}

// isOpaqueStruct: struct types from outside the repository with no exported
// fields (sync.Mutex, atomic.Int64, time.Time, netip.Addr, ...) are single
// abstract Int leaves.
func (vc *VC) isOpaqueStruct(t types.Type) bool {
	st, ok := t.Underlying().(*types.Struct)
	if !ok {
		return false
	}
	if n, ok := types.Unalias(t).(*types.Named); ok && n.Obj().Pkg() != nil {
		if vc.P.RepoPkgs[n.Obj().Pkg().Path()] {
			return false
		}
		for i := 0; i < st.NumFields(); i++ {
			if st.Field(i).Exported() {
				return false
			}
		}
		return true
	}
	return false
}

func isStructT(t types.Type) bool {
	_, ok := t.Underlying().(*types.Struct)
	return ok
}

// flatStruct reports whether t is a struct laid out field by field.
func (vc *VC) flatStruct(t types.Type) bool { return isStructT(t) && !vc.isOpaqueStruct(t) }

func (vc *VC) shape(t types.Type) []Leaf {
	switch u := t.Underlying().(type) {
	case *types.Basic:
		if u.Info()&types.IsBoolean != 0 {
			return []Leaf{{"", "Bool", t}}
		}
		return []Leaf{{"", "Int", t}}
	case *types.Slice:
		return []Leaf{{"#b", "Int", nil}, {"#o", "Int", nil}, {"#l", "Int", nil}, {"#c", "Int", nil}}
	case *types.Interface:
		return []Leaf{{"#t", "Int", nil}, {"#v", "Int", nil}}
	case *types.Struct:
		if vc.isOpaqueStruct(t) {
			if isAtomicValue(t) {
				// sync/atomic.Value holds an interface value
				return []Leaf{{"#t", "Int", nil}, {"#v", "Int", nil}}
			}
			return []Leaf{{"", "Int", t}}
		}
		var out []Leaf
		for i := 0; i < u.NumFields(); i++ {
			for _, l := range vc.shape(u.Field(i).Type()) {
				out = append(out, Leaf{"." + u.Field(i).Name() + l.Suffix, l.Sort, l.GoT})
			}
		}
		if len(out) == 0 {
			out = []Leaf{{"", "Int", nil}}
		}
		return out
	case *types.Array:
		var out []Leaf
		for _, l := range vc.shape(u.Elem()) {
			out = append(out, Leaf{"[]" + l.Suffix, "(Array Int " + l.Sort + ")", nil})
		}
		return out
	case *types.Tuple:
		var out []Leaf
		for i := 0; i < u.Len(); i++ {
			for _, l := range vc.shape(u.At(i).Type()) {
				out = append(out, Leaf{fmt.Sprintf(".%d%s", i, l.Suffix), l.Sort, l.GoT})
			}
		}
		return out
	default:
		// pointer, map, chan, func, unsafe.Pointer, type params
		return []Leaf{{"", "Int", t}}
	}
}

func (vc *VC) nleaves(t types.Type) int { return len(vc.shape(t)) }

// fieldRange gives the leaf index range of field i inside flat struct t.
func (vc *VC) fieldRange(t types.Type, i int) (int, int) {
	st := t.Underlying().(*types.Struct)
	off := 0
	for j := 0; j < i; j++ {
		off += vc.nleaves(st.Field(j).Type())
	}
	return off, off + vc.nleaves(st.Field(i).Type())
}

func zeroOfSort(s string) string {
	switch s {
	case "Int":
		return "0"
	case "Bool":
		return "false"
	}
	if strings.HasPrefix(s, "(Array Int ") {
		inner := s[len("(Array Int ") : len(s)-1]
		return "((as const " + s + ") " + zeroOfSort(inner) + ")"
	}
	return "0"
}

func (vc *VC) zeroVal(t types.Type) Val {
	sh := vc.shape(t)
	v := Val{Typ: t}
	for _, l := range sh {
		z := zeroOfSort(l.Sort)
		if l.Sort == "Int" && l.GoT != nil {
			if b, ok := l.GoT.Underlying().(*types.Basic); ok && b.Info()&types.IsString != 0 {
				z = "str_empty"
			}
		}
		v.L = append(v.L, z)
	}
	return v
}

func (vc *VC) freshVal(hint string, t types.Type) Val {
	sh := vc.shape(t)
	v := Val{Typ: t}
	for _, l := range sh {
		v.L = append(v.L, vc.fresh(hint+l.Suffix, l.Sort))
	}
	return v
}

func intInfo(t types.Type) (bits int, signed bool, ok bool) {
	b, isb := t.Underlying().(*types.Basic)
	if !isb || b.Info()&types.IsInteger == 0 {
		return 0, false, false
	}
	switch b.Kind() {
	case types.Int8:
		return 8, true, true
	case types.Int16:
		return 16, true, true
	case types.Int32:
		return 32, true, true
	case types.Int64, types.Int, types.UntypedInt, types.UntypedRune:
		return 64, true, true
	case types.Uint8:
		return 8, false, true
	case types.Uint16:
		return 16, false, true
	case types.Uint32:
		return 32, false, true
	case types.Uint64, types.Uint, types.Uintptr:
		return 64, false, true
	}
	return 0, false, false
}

func isStringT(t types.Type) bool {
	b, ok := t.Underlying().(*types.Basic)
	return ok && b.Info()&types.IsString != 0
}

// leafFact: the type-range fact for one leaf.
func (vc *VC) leafFact(term string, l Leaf) string {
	if l.Sort != "Int" {
		return "true"
	}
	if l.GoT == nil {
		// slice header / iface leaves
		return "(>= " + term + " 0)"
	}
	if bits, signed, ok := intInfo(l.GoT); ok {
		if signed {
			lo := new(big.Int).Neg(pow2(bits - 1))
			hi := new(big.Int).Sub(pow2(bits-1), big.NewInt(1))
			return "(and (>= " + term + " " + intLit(lo) + ") (<= " + term + " " + intLit(hi) + "))"
		}
		hi := new(big.Int).Sub(pow2(bits), big.NewInt(1))
		return "(and (>= " + term + " 0) (<= " + term + " " + hi.String() + "))"
	}
	if isStringT(l.GoT) {
		return "(>= (strlen " + term + ") 0)"
	}
	if n, ok := types.Unalias(l.GoT).(*types.Named); ok && n.Obj().Pkg() != nil && n.Obj().Pkg().Path() == "sync/atomic" {
		rng := func(lo, hi *big.Int) string {
			return "(and (>= " + term + " " + intLit(lo) + ") (<= " + term + " " + intLit(hi) + "))"
		}
		switch n.Obj().Name() {
		case "Bool":
			return "(or (= " + term + " 0) (= " + term + " 1))"
		case "Int32":
			return rng(new(big.Int).Neg(pow2(31)), new(big.Int).Sub(pow2(31), big.NewInt(1)))
		case "Int64":
			return rng(new(big.Int).Neg(pow2(63)), new(big.Int).Sub(pow2(63), big.NewInt(1)))
		case "Uint32":
			return rng(big.NewInt(0), new(big.Int).Sub(pow2(32), big.NewInt(1)))
		case "Uint64":
			return rng(big.NewInt(0), new(big.Int).Sub(pow2(64), big.NewInt(1)))
		}
	}
	switch l.GoT.Underlying().(type) {
	case *types.Pointer, *types.Map, *types.Chan, *types.Signature:
		return "(>= " + term + " 0)"
	}
	return "true"
}

// typeFacts: range facts for a symbolic value of Go type v.Typ.
func (vc *VC) typeFacts(v Val) string {
	if v.Typ == nil {
		return "true"
	}
	sh := vc.shape(v.Typ)
	if len(sh) != len(v.L) {
		return "true"
	}
	var fs []string
	for i, l := range sh {
		fs = append(fs, vc.leafFact(v.L[i], l))
	}
	if tup, ok := v.Typ.(*types.Tuple); ok {
		// a multi-value result: the facts of each component (slice headers, interface pairs)
		fs = nil
		at := 0
		for i := 0; i < tup.Len(); i++ {
			n := len(vc.shape(tup.At(i).Type()))
			if at+n > len(v.L) {
				break
			}
			fs = append(fs, vc.typeFacts(Val{Typ: tup.At(i).Type(), L: v.L[at : at+n]}))
			at += n
		}
		return and(fs...)
	}
	switch v.Typ.Underlying().(type) {
	case *types.Slice:
		// 0 <= off, 0 <= len <= cap, nil slice has base 0
		fs = append(fs, "(<= "+v.L[2]+" "+v.L[3]+")",
			"(=> (= "+v.L[0]+" 0) (and (= "+v.L[3]+" 0) (= "+v.L[1]+" 0)))")
	case *types.Interface:
		fs = append(fs, "(=> (= "+v.L[0]+" 0) (= "+v.L[1]+" 0))")
	}
	return and(fs...)
}

// ---------------------------------------------------------------------------
// string literals

func (vc *VC) strLit(s string) string {
	if s == "" {
		return "str_empty"
	}
	if n, ok := vc.strLits[s]; ok {
		return n
	}
	n := vc.declConst(fmt.Sprintf("str!%d!%s", len(vc.strLits), sanitize(truncate(s, 24))), "Int")
	// distinct from all previous literals and the empty string
	for _, o := range vc.sortedLits() {
		vc.assert("(not (= " + n + " " + o + "))")
	}
	vc.assert("(not (= " + n + " str_empty))")
	vc.assert(fmt.Sprintf("(= (strlen %s) %d)", n, len(s)))
	if len(s) <= 8 {
		for i := 0; i < len(s); i++ {
			vc.assert(fmt.Sprintf("(= (strbyte %s %d) %d)", n, i, s[i]))
		}
	}
	vc.strLits[s] = n
	return n
}

func (vc *VC) sortedLits() []string {
	var out []string
	for _, n := range vc.strLits {
		out = append(out, n)
	}
	sort.Strings(out)
	return out
}

func truncate(s string, n int) string {
	if len(s) > n {
		return s[:n]
	}
	return s
}

// ---------------------------------------------------------------------------
// heap

const (
	hRoot = iota
	hStore
	hMerge
	hHavocSet
	hFrame // lazily framed view: under cond, families outside `set` equal those of `pre` on objects older than oldNow
)

type Heap struct {
	id      int
	kind    int
	parent  *Heap
	over    map[string]string
	conds   []string
	parents []*Heap
	set     map[string]bool // family names (exact) or prefixes ending in '*'
	memo    map[string]string
	cond    string
	pre     *Heap
	oldNow  string
	keep    []string // refs of non-escaping local maps: untouched by this havoc (calls / loop bodies that do not update them)
	keepE   []string // cells of effectively-final captured variables (written once by the enclosing function, only read by closures)
	keepH   []string // refs of stack-allocated (non-escaping) locals of the running activations: no callee can write them
}

func (vc *VC) newHeap(kind int) *Heap {
	vc.heapID++
	return &Heap{id: vc.heapID, kind: kind, memo: map[string]string{}}
}

func (vc *VC) rootHeap() *Heap { return vc.newHeap(hRoot) }

func (vc *VC) family(fam, srt string) {
	if old, ok := vc.famSort[fam]; ok {
		if old != srt {
			vc.errorf("family %s has conflicting sorts %s vs %s", fam, old, srt)
		}
		return
	}
	vc.famSort[fam] = srt
}

func inSet(set map[string]bool, fam string) bool {
	if set["*"] || set[fam] {
		return true
	}
	for k := range set {
		if strings.Contains(k, "*") && globMatch(k, fam) {
			return true
		}
	}
	return false
}

// globMatch: '*' matches any (possibly empty) substring.
func globMatch(pat, s string) bool {
	parts := strings.Split(pat, "*")
	if len(parts) == 1 {
		return pat == s
	}
	if !strings.HasPrefix(s, parts[0]) {
		return false
	}
	s = s[len(parts[0]):]
	for i := 1; i < len(parts)-1; i++ {
		k := strings.Index(s, parts[i])
		if k < 0 {
			return false
		}
		s = s[k+len(parts[i]):]
	}
	return strings.HasSuffix(s, parts[len(parts)-1])
}

func (vc *VC) lookup(h *Heap, fam string) string {
	if t, ok := h.memo[fam]; ok {
		return t
	}
	srt, ok := vc.famSort[fam]
	if !ok {
		panic("lookup of undeclared family " + fam)
	}
	var t string
	switch h.kind {
	case hRoot:
		t = vc.declConst(fmt.Sprintf("%s@%d", fam, h.id), srt)
	case hStore:
		if o, ok := h.over[fam]; ok {
			t = o
		} else {
			t = vc.lookup(h.parent, fam)
		}
	case hHavocSet:
		if (inSet(h.set, fam) && !vc.isGhostFam(fam)) || h.set[fam] || h.set[fam+"*"] || h.set[ghostBase(fam)+"*"] {
			t = vc.declConst(fmt.Sprintf("%s@%d", fam, h.id), srt)
			if len(h.keep) > 0 && strings.HasPrefix(fam, "M_") {
				p := vc.lookup(h.parent, fam)
				for _, r := range h.keep {
					vc.assert("(= (select " + t + " " + r + ") (select " + p + " " + r + "))")
				}
			}
			if len(h.keepH) > 0 && (strings.HasPrefix(fam, "H_") || strings.HasPrefix(fam, "E_")) && !vc.isGhostFam(fam) {
				p := vc.lookup(h.parent, fam)
				for _, r := range h.keepH {
					vc.assert("(= (select " + t + " " + r + ") (select " + p + " " + r + "))")
				}
			}
			if len(h.keepE) > 0 && strings.HasPrefix(fam, "E_") {
				p := vc.lookup(h.parent, fam)
				for _, r := range h.keepE {
					vc.assert("(= (select " + t + " " + r + ") (select " + p + " " + r + "))")
				}
			}
		} else {
			t = vc.lookup(h.parent, fam)
		}
	case hFrame:
		t = vc.lookup(h.parent, fam)
		if !inSet(h.set, fam) && !strings.HasPrefix(fam, "GV_") {
			p := vc.lookup(h.pre, fam)
			if p != t {
				if !strings.HasPrefix(srt, "(Array Int ") {
					vc.assert(imp(h.cond, eq(t, p)))
				} else {
					x := q(vc.freshName("bv.f"))
					vc.assert(imp(h.cond, "(forall (("+x+" Int)) (! (=> (< (birth "+x+") "+h.oldNow+") (= (select "+t+" "+x+") (select "+p+" "+x+"))) :pattern ((select "+t+" "+x+"))))"))
				}
			}
		}
	case hMerge:
		ts := make([]string, len(h.parents))
		same := true
		for i, p := range h.parents {
			ts[i] = vc.lookup(p, fam)
			if ts[i] != ts[0] {
				same = false
			}
		}
		if same {
			t = ts[0]
		} else {
			term := ts[len(ts)-1]
			for i := len(ts) - 2; i >= 0; i-- {
				term = ite(h.conds[i], ts[i], term)
			}
			t = vc.declConst(fmt.Sprintf("%s@%d", fam, h.id), srt)
			vc.assert("(= " + t + " " + term + ")")
		}
	}
	h.memo[fam] = t
	return t
}

func (vc *VC) heapSet(h *Heap, fam, term string) *Heap {
	n := vc.newHeap(hStore)
	n.parent = h
	n.over = map[string]string{fam: term}
	return n
}

func (vc *VC) heapHavoc(h *Heap, set map[string]bool) *Heap {
	if len(set) == 0 {
		return h
	}
	n := vc.newHeap(hHavocSet)
	n.parent = h
	n.set = set
	return n
}

func (vc *VC) heapMerge(conds []string, hs []*Heap) *Heap {
	if len(hs) == 1 {
		return hs[0]
	}
	same := true
	for _, h := range hs {
		if h != hs[0] {
			same = false
		}
	}
	if same {
		return hs[0]
	}
	n := vc.newHeap(hMerge)
	n.conds = conds
	n.parents = hs
	return n
}

// changedBetween collects families possibly changed on some path from `from`
// to `to` (walking parents). ok=false if `from` is not an ancestor on every path.
func (vc *VC) changedBetween(from, to *Heap, acc map[string]bool, seen map[*Heap]bool) bool {
	if to == from {
		return true
	}
	if seen[to] {
		return true
	}
	seen[to] = true
	switch to.kind {
	case hRoot:
		return false
	case hStore:
		for k := range to.over {
			acc[k] = true
		}
		return vc.changedBetween(from, to.parent, acc, seen)
	case hHavocSet:
		for k := range to.set {
			acc[k] = true
		}
		return vc.changedBetween(from, to.parent, acc, seen)
	case hFrame:
		return vc.changedBetween(from, to.parent, acc, seen)
	case hMerge:
		ok := true
		for _, p := range to.parents {
			if !vc.changedBetween(from, p, acc, seen) {
				ok = false
			}
		}
		return ok
	}
	return false
}

// readLoc / writeLoc on single-leaf families.

func (vc *VC) selectTerm(arr string, idx []string) string {
	t := arr
	for _, i := range idx {
		t = "(select " + t + " " + i + ")"
	}
	return t
}

func (vc *VC) storeTerm(arr string, idx []string, val string) string {
	switch len(idx) {
	case 0:
		return val
	case 1:
		return "(store " + arr + " " + idx[0] + " " + val + ")"
	default:
		inner := vc.storeTerm("(select "+arr+" "+idx[0]+")", idx[1:], val)
		return "(store " + arr + " " + idx[0] + " " + inner + ")"
	}
}

func famSortFor(leafSort string, nidx int) string {
	s := leafSort
	for i := 0; i < nidx; i++ {
		s = "(Array Int " + s + ")"
	}
	return s
}

// loadLoc reads the value at loc (all leaves) from heap h.
func (vc *VC) loadLoc(h *Heap, loc *Loc) Val {
	sh := vc.shape(loc.Typ)
	v := Val{Typ: loc.Typ}
	for _, l := range sh {
		fam := loc.Fam + l.Suffix
		vc.family(fam, famSortFor(l.Sort, len(loc.Idx)))
		v.L = append(v.L, vc.selectTerm(vc.lookup(h, fam), loc.Idx))
	}
	return v
}

func (vc *VC) storeLoc(h *Heap, loc *Loc, val Val) *Heap {
	sh := vc.shape(loc.Typ)
	if len(sh) != len(val.L) {
		vc.errorf("store shape mismatch at %s: %d leaves vs %d (%v)", loc.Fam, len(sh), len(val.L), loc.Typ)
		return h
	}
	n := vc.newHeap(hStore)
	n.parent = h
	n.over = map[string]string{}
	for i, l := range sh {
		fam := loc.Fam + l.Suffix
		vc.family(fam, famSortFor(l.Sort, len(loc.Idx)))
		cur := vc.lookup(h, fam)
		nt := vc.storeTerm(cur, loc.Idx, val.L[i])
		if len(loc.Idx) > 0 {
			nt = vc.define(fam, vc.famSort[fam], nt)
		}
		n.over[fam] = nt
	}
	return n
}

// isGhostFam: ghost families change only through explicit ghost updates /
// explicit modifies entries, never through wildcard havocs.
func (vc *VC) isGhostFam(fam string) bool {
	if strings.HasPrefix(fam, "GV_") || strings.HasPrefix(fam, "RV_") {
		return true
	}
	if !strings.HasPrefix(fam, "H_") {
		return false
	}
	if _, ok := vc.S.Ghosts[fam[2:]]; ok {
		return true
	}
	if strings.HasPrefix(fam, "H_iface.") {
		return true
	}
	name := fam[2:]
	if i := strings.IndexAny(name, "#"); i >= 0 {
		name = name[:i]
	}
	return vc.S.Immutable[name]
}

func isAtomicValue(t types.Type) bool {
	n, ok := types.Unalias(t).(*types.Named)
	return ok && n.Obj().Pkg() != nil && n.Obj().Pkg().Path() == "sync/atomic" && n.Obj().Name() == "Value"
}

// ghostBase strips a leaf suffix (#t, #v, ...) from a family name.
func ghostBase(fam string) string {
	if i := strings.Index(fam, "#"); i >= 0 {
		return fam[:i]
	}
	return fam
}
