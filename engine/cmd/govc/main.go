package main

import (
	"fmt"
	_ "golang.org/x/tools/go/packages"
	_ "golang.org/x/tools/go/ssa"
	_ "golang.org/x/tools/go/ssa/ssautil"
)

func main() { fmt.Println("ok") }
