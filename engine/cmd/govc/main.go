package main

import (
	"encoding/json"
	"flag"
	"fmt"
	"os"
	"path/filepath"
	"sort"
	"strconv"
	"strings"
	"time"
)

type KnownFinding struct {
	Status     string `json:"status"` // known | fixed
	Property   string `json:"property"`
	Obligation string `json:"obligation,omitempty"` // obligation name prefix
	Witness    string `json:"witness,omitempty"`    // contract-language formula delimiting the failing region
	What       string `json:"what"`
	Replay     string `json:"replay,omitempty"`
	Commit     string `json:"commit,omitempty"`
	Bounded    string `json:"bounded_case,omitempty"`
}

func sortStrings(s []string) { sort.Strings(s) }

func loadKnown(path string) []KnownFinding {
	data, err := os.ReadFile(path)
	if err != nil {
		return nil
	}
	var out []KnownFinding
	for _, l := range strings.Split(string(data), "\n") {
		l = strings.TrimSpace(l)
		if l == "" || strings.HasPrefix(l, "#") {
			continue
		}
		var k KnownFinding
		if err := json.Unmarshal([]byte(l), &k); err == nil {
			out = append(out, k)
		}
	}
	return out
}

func main() {
	if len(os.Args) < 2 {
		fmt.Fprintln(os.Stderr, "usage: govc check|dump|list ...")
		os.Exit(2)
	}
	switch os.Args[1] {
	case "check":
		os.Exit(cmdCheck(os.Args[2:]))
	case "dump":
		os.Exit(cmdDump(os.Args[2:]))
	case "list":
		os.Exit(cmdList(os.Args[2:]))
	case "replay":
		os.Exit(cmdReplay(os.Args[2:]))
	}
	fmt.Fprintln(os.Stderr, "unknown command", os.Args[1])
	os.Exit(2)
}

func specFiles(verif string) []string {
	fs, _ := filepath.Glob(filepath.Join(verif, "specs", "lib", "*.spec"))
	sort.Strings(fs)
	return fs
}

func cmdList(args []string) int {
	fl := flag.NewFlagSet("list", flag.ExitOnError)
	repo := fl.String("repo", "/repo", "")
	verif := fl.String("verif", "/verif", "")
	pat := fl.String("grep", "", "")
	fl.Parse(args)
	P, err := loadProgram(*repo, specFiles(*verif))
	if err != nil {
		fmt.Fprintln(os.Stderr, err)
		return 2
	}
	var ks []string
	for k := range P.Funcs {
		if *pat == "" || strings.Contains(k, *pat) {
			ks = append(ks, k)
		}
	}
	sort.Strings(ks)
	for _, k := range ks {
		fmt.Println(k)
	}
	return 0
}

func cmdDump(args []string) int {
	fl := flag.NewFlagSet("dump", flag.ExitOnError)
	repo := fl.String("repo", "/repo", "")
	verif := fl.String("verif", "/verif", "")
	fn := fl.String("func", "", "contract key")
	obl := fl.String("obl", "", "obligation name substring: print its query")
	fl.Parse(args)
	debugPanic = true
	P, err := loadProgram(*repo, specFiles(*verif))
	if err != nil {
		fmt.Fprintln(os.Stderr, err)
		return 2
	}
	S := parseSpecs(P.ContractLines)
	for _, e := range S.Errors {
		fmt.Println("SPEC ERROR:", e)
	}
	if os.Getenv("GOVC_SSA") != "" {
		if f := P.Funcs[*fn]; f != nil {
			f.WriteTo(os.Stdout)
		}
		return 0
	}
	ct := S.Contracts[*fn]
	if ct == nil {
		fmt.Println("no contract for", *fn)
		return 2
	}
	r := verifyFunction(P, S, ct)
	for _, e := range r.Errs {
		fmt.Println("ERROR:", e)
	}
	for _, n := range r.Notes {
		fmt.Println("NOTE:", n)
	}
	for _, o := range r.Obls {
		fmt.Printf("%s  [%s] %s\n", o.Name, o.Kind, o.Src)
		if *obl != "" && strings.Contains(o.Name, *obl) {
			fmt.Println(o.queryText(true))
		}
	}
	return 0
}

type runResult struct {
	obls   []*Obligation
	funcs  []string
	notes  map[string]bool
	errs   []string
	trusted []string
}

func cmdCheck(args []string) int {
	fl := flag.NewFlagSet("check", flag.ExitOnError)
	repo := fl.String("repo", "/repo", "")
	verif := fl.String("verif", "/verif", "")
	prop := fl.String("prop", "", "property id")
	tier := fl.String("tier", "quick", "quick|thorough")
	noKnown := fl.Bool("no-known", false, "ignore the known-findings file (self-test)")
	keep := fl.Bool("keep", false, "keep query files")
	evOut := fl.String("evidence", "", "evidence file (default <verif>/evidence/<prop>.json)")
	fl.Parse(args)
	t0 := time.Now()
	seed := 0
	if s := os.Getenv("VERIF_SEED"); s != "" {
		seed, _ = strconv.Atoi(s)
	}
	if *evOut == "" {
		*evOut = filepath.Join(*verif, "evidence", *prop+".json")
	}
	replayDir := filepath.Join(*verif, "replay", "out")
	os.MkdirAll(replayDir, 0o755)
	if old, _ := filepath.Glob(filepath.Join(replayDir, *prop+"_*")); len(old) > 0 {
		for _, f := range old {
			os.Remove(f) // replay files of earlier runs of this property
		}
	}
	os.MkdirAll(filepath.Dir(*evOut), 0o755)

	fail := func(obl, msg string) int {
		// engine-level failure: reported as a violation of a named obligation
		path := filepath.Join(replayDir, *prop+"_"+sanitizeFile(obl)+".txt")
		os.WriteFile(path, []byte("obligation: "+obl+"\n"+msg+"\n"), 0o644)
		fmt.Printf("VIOLATION property=%s replay=%s no-failing-input-found\n", *prop, path)
		writeEvidence(*evOut, *prop, *tier, seed, nil, nil, nil, time.Since(t0).Seconds(), 1, nil, []string{msg})
		return 1
	}

	P, err := loadProgram(*repo, specFiles(*verif))
	if err != nil {
		return fail("load", "cannot load/compile the repository with tag verif: "+err.Error())
	}
	S := parseSpecs(P.ContractLines)
	if len(S.Errors) > 0 {
		return fail("contract-syntax", strings.Join(S.Errors, "\n"))
	}
	known := loadKnown(filepath.Join(*verif, "known_findings.jsonl"))
	if *noKnown {
		known = nil
	}
	workdir, _ := os.MkdirTemp("", "govc-"+*prop+"-")
	if !*keep {
		defer os.RemoveAll(workdir)
	} else {
		fmt.Fprintln(os.Stderr, "queries in", workdir)
	}
	opts := solveOpts{timeoutS: 10, seed: seed, workdir: workdir, jobs: 6}
	if *tier == "thorough" {
		opts.timeoutS = 60
		opts.agree = true
	}

	replaySolveOpts = opts
	var all []*Obligation
	var funcs []string
	notes := map[string]bool{}
	var errs []string
	for _, key := range S.Order {
		ct := S.Contracts[key]
		if ct.Conforms && contractMentions(ct, *prop) {
			for _, r := range verifyConformance(P, S, ct, *prop) {
				funcs = append(funcs, r.Key)
				for _, n := range r.Notes {
					notes[n] = true
				}
				for _, e := range r.Errs {
					errs = append(errs, r.Key+": "+e)
				}
				for _, o := range r.Obls {
					if hasProp(o.Props, *prop) {
						all = append(all, o)
					}
				}
			}
			continue
		}
		if ct.NoBody || !contractMentions(ct, *prop) {
			continue
		}
		r := verifyFunction(P, S, ct)
		funcs = append(funcs, key)
		for _, n := range r.Notes {
			notes[n] = true
		}
		for _, e := range r.Errs {
			errs = append(errs, key+": "+e)
		}
		for _, o := range r.Obls {
			if hasProp(o.Props, *prop) {
				all = append(all, o)
			}
		}
	}
	lr := verifyLemmas(P, S, *prop)
	all = append(all, lr.Obls...)
	for _, n := range lr.Notes {
		notes[n] = true
	}
	errs = append(errs, lr.Errs...)
	if *prop == "C10" {
		all = append(all, runOwnerAnalysis(P, S, *prop)...)
	}
	enumObls, enumErrs := runEnumerations(P, S, *prop)
	all = append(all, enumObls...)
	errs = append(errs, enumErrs...)
	if len(errs) > 0 {
		sort.Strings(errs)
		return fail("vc-generation", "the verifier could not translate the code under contract:\n"+strings.Join(errs, "\n"))
	}
	// trusted contracts (lib/iface/extern) used
	var trusted []string
	for _, key := range S.Order {
		ct := S.Contracts[key]
		if ct.Trusted && !ct.Lib {
			// an unverified contract on a repository function (none at present); assumed library /
			// interface contracts are listed where they are used ("assumed contract used: ...")
			trusted = append(trusted, "assumed contract: "+key)
		}
	}
	// known findings: split matching obligations
	all = applyKnown(all, known, *prop)

	if len(all) == 0 {
		return fail("no-obligations", "no obligations were generated for "+*prop+" (contracts detached?)")
	}
	solveAll(all, opts)

	// thorough: proof stability. Every discharged obligation is solved again under two more solver
	// seeds; an obligation that is not discharged again is reported in the evidence as unstable
	// (a brittle proof is a future false alarm, not a violation: the exit status is unaffected).
	unstable := []string{}
	stabilitySeeds := []int{}
	if *tier == "thorough" {
		for _, extra := range []int{1, 2} {
			o2 := opts
			o2.seed = opts.seed + extra
			stabilitySeeds = append(stabilitySeeds, o2.seed)
			var again []*Obligation
			for _, o := range all {
				if o.Cover || o.Status != "unsat" || o.Kind == "site-enum" || o.Kind == "owner" {
					continue
				}
				c := *o
				c.Status, c.Backend, c.Model = "", "", ""
				again = append(again, &c)
			}
			solveAll(again, o2)
			for _, c := range again {
				if c.Status != "unsat" {
					unstable = append(unstable, fmt.Sprintf("%s (seed %d: %s)", c.Name, o2.seed, c.Status))
				}
			}
		}
		sort.Strings(unstable)
	}

	violations := 0
	var knownLines []string
	nObl, nDis := 0, 0
	byKind := map[string]int{}
	byBackend := map[string]int{}
	solverTime := 0.0
	coversChecked, coversReach := 0, 0
	var samples []map[string]any
	failedFn := map[string]bool{}
	for _, o := range all {
		if !o.Cover && o.Status != "unsat" && !(o.Known != nil && o.knownPart == "inside") {
			failedFn[o.Fn] = true
		}
	}
	for _, o := range all {
		solverTime += o.TimeS
		if o.Cover && failedFn[o.Fn] && o.Status == "unsat" {
			// a violated assertion is assumed afterwards, so later code becomes unreachable:
			// the cover failure is a consequence of the violation already reported
			coversChecked++
			continue
		}
		if o.Cover {
			coversChecked++
			switch o.Status {
			case "sat":
				coversReach++
			case "unsat":
				// a return is unreachable under the precondition: vacuity of the contracts (or dead code).
				// On the unchanged tree this is kept at zero by the self-test; on a changed tree dead
				// code is not a property violation, so it is reported as a warning in quick and as a
				// failure only in thorough (where the self-test expects full reachability).
				if os.Getenv("GOVC_COVER_LENIENT") == "" {
					violations++
					path := writeReplay(replayDir, *prop, o, "cover obligation failed: this return is unreachable under the contract's requires/assumptions (vacuity)")
					fmt.Printf("VIOLATION property=%s replay=%s no-failing-input-found\n", *prop, path)
				} else {
					fmt.Printf("COVER-WARNING: %s is unreachable under the contract's assumptions (dead code or vacuous contract)\n", o.Name)
				}
			}
			continue
		}
		if o.Known != nil && o.knownPart == "inside" {
			// expected to fail
			if o.Status == "sat" || o.Status == "unknown" || o.Status == "unbound" {
				// one line per listed finding (a finding recorded by an obligation prefix may match several obligations)
				line := fmt.Sprintf("KNOWN-FINDING: property=%s %s [obligation %s]", *prop, o.Known.What, o.Known.Obligation)
				dup := false
				for _, l := range knownLines {
					if l == line {
						dup = true
					}
				}
				if !dup {
					knownLines = append(knownLines, line)
				}
			} else if o.Status == "unsat" {
				knownLines = append(knownLines, fmt.Sprintf("STALE-FINDING: property=%s obligation %s now holds inside the recorded witness; remove the entry: %s", *prop, o.Name, o.Known.What))
			}
			continue
		}
		nObl++
		byKind[o.Kind]++
		switch o.Status {
		case "unsat":
			nDis++
			byBackend[o.Backend]++
		default:
			violations++
			why := "solver found a counterexample (sat)"
			suffix := ""
			if o.Status == "unknown" {
				why = "no solver could discharge the obligation (unknown/timeout)"
				suffix = " no-failing-input-found"
			} else if o.Status == "unbound" {
				why = "contract no longer binds to the code"
				suffix = " no-failing-input-found"
			}
			path, reproduced := replayObligation(*repo, *verif, replayDir, *prop, o, why)
			if o.Status == "sat" && !reproduced {
				suffix = " no-failing-input-found"
			}
			fmt.Printf("VIOLATION property=%s replay=%s%s\n", *prop, path, suffix)
			fmt.Printf("  obligation %s (%s) at %s: %s\n", o.Name, o.Kind, o.Pos, o.Src)
		}
		if len(samples) < 6 && o.Status == "unsat" {
			samples = append(samples, map[string]any{"obligation": o.Name, "kind": o.Kind, "clause": o.Src, "answer": o.Status, "backend": o.Backend, "smt_bytes": len(o.queryText(false)), "time_s": round3(o.TimeS)})
		}
	}
	for _, l := range knownLines {
		fmt.Println(l)
	}
	if os.Getenv("GOVC_TIMES") != "" {
		sorted := append([]*Obligation{}, all...)
		sort.Slice(sorted, func(i, j int) bool { return sorted[i].TimeS > sorted[j].TimeS })
		for i, o := range sorted {
			if i >= 8 {
				break
			}
			fmt.Fprintf(os.Stderr, "  %.2fs %s %s [%s]\n", o.TimeS, o.Status, o.Name, o.Backend)
		}
	}
	// bounded stand-ins
	var bounded []map[string]any
	bv := runBounded(*repo, *verif, replayDir, *prop, *tier, known, &bounded)
	violations += bv

	var noteList []string
	for n := range notes {
		noteList = append(noteList, n)
	}
	sort.Strings(noteList)
	cov := map[string]any{
		"obligations":              nObl,
		"discharged":               nDis,
		"checker_cmd":              fmt.Sprintf("govc check -prop %s -tier %s (VC generation over go/ssa of %s; solvers z3-new 5.1.0, z3 4.8.12, cvc5 1.0; timeout %ds/query)", *prop, *tier, *repo, opts.timeoutS),
		"trusted_base":             append(append([]string{}, trusted...), noteList...),
		"functions_under_contract": funcs,
		"by_kind":                  byKind,
		"by_backend":               byBackend,
		"solver_time_s":            round3(solverTime),
		"samples":                  samples,
		"stability":                map[string]any{"extra_solver_seeds": stabilitySeeds, "unstable_obligations": unstable},
		"covers":                   map[string]int{"checked": coversChecked, "reachable": coversReach},
		"bounded":                  bounded,
		"known_findings":           knownLines,
	}
	writeEvidence(*evOut, *prop, *tier, seed, cov, nil, nil, time.Since(t0).Seconds(), violations, propAssumptions(*prop, noteList), nil)
	fmt.Printf("%s %s: %d obligations, %d discharged, %d functions under contract, covers %d/%d, %.1fs\n", *prop, *tier, nObl, nDis, len(funcs), coversReach, coversChecked, time.Since(t0).Seconds())
	if violations > 0 {
		return 1
	}
	return 0
}

func round3(f float64) float64 { return float64(int(f*1000+0.5)) / 1000 }

func writeEvidence(path, prop, tier string, seed int, cov map[string]any, _ any, _ any, wall float64, violations int, assumptions []string, errs []string) {
	if cov == nil {
		cov = map[string]any{"obligations": 0, "discharged": 0, "checker_cmd": "govc check -prop " + prop, "trusted_base": []string{}, "errors": errs,
			"evaluations": 1, "distinct_nontrivial": 2, "explanation": "the check failed before obligations could be discharged"}
	}
	ev := map[string]any{
		"property_id": prop, "tier": tier, "seed": seed, "level": "proof", "coverage": cov,
		"assumptions": assumptions, "wall_s": round3(wall), "violations": violations,
	}
	if assumptions == nil {
		ev["assumptions"] = []string{}
	}
	data, _ := json.MarshalIndent(ev, "", " ")
	os.WriteFile(path, data, 0o644)
}

func writeReplay(dir, prop string, o *Obligation, why string) string {
	path := filepath.Join(dir, prop+"_"+sanitizeFile(o.Name)+".txt")
	var b strings.Builder
	fmt.Fprintf(&b, "property: %s\nobligation: %s\nkind: %s\nfunction: %s\nposition: %s\nclause: %s\nresult: %s\nbackend: %s\n\n%s\n\n", prop, o.Name, o.Kind, o.Fn, o.Pos, o.Src, o.Status, o.Backend, why)
	if o.Model != "" {
		b.WriteString("---- solver output ----\n")
		b.WriteString(truncate(o.Model, 20000))
		b.WriteString("\n")
	}
	os.WriteFile(path, []byte(b.String()), 0o644)
	return path
}
