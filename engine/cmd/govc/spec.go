package main

// spec.go: the contract language. Contracts are //@ lines in comment-only
// files. This file parses them into Contract records; expression syntax is Go
// expression syntax (parsed with go/parser) extended with
//   A ==> B            (lowest precedence, right associative)
//   forall x T, y T :: body     exists x T :: body
//   old(e)  ite(c,a,b)  len cap min max  has(m,k)  istype(x, T)  closed(ch)

import (
	"fmt"
	"go/ast"
	"go/parser"
	"regexp"
	"strconv"
	"strings"
)

type SExpr struct {
	Kind   string // "go", "imp", "forall", "exists"
	Go     ast.Expr
	L, R   *SExpr   // imp
	Vars   []BVar   // quantifier
	Body   *SExpr   // quantifier
	Src    string
	Pats   []string // optional :pattern sources (unused for now)
}

type BVar struct{ Name, Type string }

type LockInv struct {
	Key      string
	Protects []string
	Clauses  []Clause
}

type GhostVar struct {
	Name, GType string
	Init        *SExpr
}

type Clause struct {
	Props []string
	Label string
	E     *SExpr
	Src   string
	File  string
	Line  int
}

type SiteClause struct {
	Kind   string // "call" | "store" | "return"
	Target string // callee name (suffix match) or field name
	Ord    int    // 1-based ordinal among matching sites in source order; 0 = all
	What   string // "assert" | "assume" | "ghost"
	When   string // "before" | "after" (calls; default before for assert, after for ghost)
	Clause Clause
	// ghost assignment: LHS = RHS
	GhostLHS *SExpr
	GhostRHS *SExpr
}

type Contract struct {
	Key       string // e.g. ice.(*Agent).handleRoleConflict or iface key "iface ice.Candidate.Priority"
	Props     []string
	Requires  []Clause
	Defines   []Clause
	GhostVars []GhostVar
	Ensures   []Clause
	Modifies  []string // location expressions (source); nil + !HasMod => syntactic mod set
	HasMod    bool
	Pure      bool
	Trusted   bool // lib contract: not verified, only assumed
	Lib       bool // iface / extern contract (assumed; listed in evidence where it is used)
	Safety    map[string]bool
	LoopInv   map[int][]Clause
	LoopDec   map[int]*Clause
	Sites     []SiteClause
	Inline    bool // never use contract at call sites... (unused)
	NoBody    bool // do not verify the body (contract on external / interface method)
	Results   []string // optional names for results (for iface/lib contracts)
	Params    []string // optional param names for iface/lib contracts
	File      string
	Line      int
	Opts      map[string]string
	Covers    bool
	Conforms  bool
	ConformsRepo bool // `conforms repo`: checked against the repository's implementors only; stays assumed for others
}

type SpecFunc struct {
	Name   string
	Params []BVar
	Ret    string
	Body   *SExpr // nil => uninterpreted
	Macro  bool
	Src    string
}

type Lemma struct {
	Name  string
	Props []string
	E     *SExpr
	Src   string
	File  string
	Line  int
	Uses  []string // lemmas used as background (by name)
	Axiom bool     // trusted (listed in evidence)
}

type GhostField struct {
	Type  string // "ice.Agent"
	Name  string
	GType string // int | bool | ref
}

type OwnerDecl struct {
	Type, Field, Class string
}

type Specs struct {
	Contracts map[string]*Contract
	Order     []string
	Funcs     map[string]*SpecFunc
	FuncOrder []string
	Lemmas    []*Lemma
	Ghosts    map[string]*GhostField // key "ice.Agent.gName"
	Consts    map[string]string      // spec constants
	Owners    []OwnerDecl
	Errors    []string
	Enumerate []EnumDecl
	Bounded   []string
	Immutable map[string]bool // "ice.Agent.field": never changed by wildcard havocs; stores enumerated
	LockInvs  map[string]*LockInv // "ice.handlerNotifier.Mutex"
	CloseOnly map[string]bool     // channel fields that are only ever closed (never sent on)
	NoEffect  map[string]bool     // func-typed fields whose calls have no effect on modelled state
}

type EnumDecl struct {
	Props []string
	Kind  string // "stores" etc
	Args  []string
	File  string
	Line  int
	Src   string
}

var propRe = regexp.MustCompile(`^C\d\d\d?$`)

func splitTopLevel(s, sep string) []string {
	var out []string
	depth := 0
	inStr := byte(0)
	last := 0
	for i := 0; i < len(s); i++ {
		c := s[i]
		if inStr != 0 {
			if c == '\\' {
				i++
			} else if c == inStr {
				inStr = 0
			}
			continue
		}
		switch c {
		case '"', '\'', '`':
			inStr = c
		case '(', '[', '{':
			depth++
		case ')', ']', '}':
			depth--
		}
		if depth == 0 && strings.HasPrefix(s[i:], sep) {
			out = append(out, s[last:i])
			last = i + len(sep)
			i += len(sep) - 1
		}
	}
	out = append(out, s[last:])
	return out
}

func parseSExpr(src string) (*SExpr, error) {
	s := strings.TrimSpace(src)
	if s == "" {
		return nil, fmt.Errorf("empty expression")
	}
	for _, q := range []string{"forall", "exists"} {
		if strings.HasPrefix(s, q+" ") {
			parts := splitTopLevel(s[len(q)+1:], "::")
			if len(parts) < 2 {
				return nil, fmt.Errorf("quantifier without '::' in %q", src)
			}
			body := strings.Join(parts[1:], "::")
			var vars []BVar
			for _, v := range strings.Split(parts[0], ",") {
				f := strings.Fields(v)
				if len(f) != 2 {
					return nil, fmt.Errorf("bad bound variable %q", v)
				}
				vars = append(vars, BVar{f[0], f[1]})
			}
			b, err := parseSExpr(body)
			if err != nil {
				return nil, err
			}
			return &SExpr{Kind: q, Vars: vars, Body: b, Src: src}, nil
		}
	}
	head := s
	if p := topLevelQuantifier(s); p > 0 {
		head = s[:p] // an implication arrow inside a trailing quantifier belongs to the quantifier
	}
	parts := splitTopLevel(head, "==>")
	if len(parts) > 1 {
		l, err := parseSExpr(parts[0])
		if err != nil {
			return nil, err
		}
		r, err := parseSExpr(s[len(parts[0])+3:])
		if err != nil {
			return nil, err
		}
		return &SExpr{Kind: "imp", L: l, R: r, Src: src}, nil
	}
	// a parenthesised quantifier / implication: ( forall ... ) — handle the
	// case where the whole string is wrapped in parens containing ==> or forall.
	if strings.HasPrefix(s, "(") && matchingParen(s, 0) == len(s)-1 {
		inner := s[1 : len(s)-1]
		if strings.Contains(inner, "==>") || strings.HasPrefix(strings.TrimSpace(inner), "forall ") || strings.HasPrefix(strings.TrimSpace(inner), "exists ") {
			return parseSExpr(inner)
		}
	}
	// "A && forall x :: B": the quantifier extends to the end of the expression
	if p := topLevelQuantifier(s); p > 0 {
		left := strings.TrimSpace(s[:p])
		op := ""
		for _, o := range []string{"&&", "||"} {
			if strings.HasSuffix(left, o) {
				op = o
				left = strings.TrimSpace(strings.TrimSuffix(left, o))
			}
		}
		if op != "" {
			l, err := parseSExpr(left)
			if err != nil {
				return nil, err
			}
			r, err := parseSExpr(s[p:])
			if err != nil {
				return nil, err
			}
			k := "and"
			if op == "||" {
				k = "or"
			}
			return &SExpr{Kind: k, L: l, R: r, Src: src}, nil
		}
	}
	// conjunction / disjunction whose operands contain quantifiers or ==> in parens
	if strings.Contains(s, "==>") || strings.Contains(s, "forall ") || strings.Contains(s, "exists ") {
		for _, op := range []string{"||", "&&"} {
			ps := splitTopLevel(s, op)
			if len(ps) > 1 {
				var cur *SExpr
				for _, p := range ps {
					e, err := parseSExpr(p)
					if err != nil {
						return nil, err
					}
					if cur == nil {
						cur = e
					} else {
						k := "and"
						if op == "||" {
							k = "or"
						}
						cur = &SExpr{Kind: k, L: cur, R: e, Src: src}
					}
				}
				return cur, nil
			}
		}
		if strings.HasPrefix(s, "!") {
			e, err := parseSExpr(s[1:])
			if err != nil {
				return nil, err
			}
			return &SExpr{Kind: "not", L: e, Src: src}, nil
		}
	}
	e, err := parser.ParseExpr(s)
	if err != nil {
		return nil, fmt.Errorf("cannot parse %q: %v", s, err)
	}
	return &SExpr{Kind: "go", Go: e, Src: src}, nil
}

func matchingParen(s string, i int) int {
	depth := 0
	for j := i; j < len(s); j++ {
		switch s[j] {
		case '(':
			depth++
		case ')':
			depth--
			if depth == 0 {
				return j
			}
		}
	}
	return -1
}

// takeProps strips leading property ids and an optional "label:" from a clause body.
func takeProps(body string) (props []string, label string, rest string) {
	rest = strings.TrimSpace(body)
	for {
		f := strings.SplitN(rest, " ", 2)
		if len(f) == 2 && propRe.MatchString(strings.TrimSuffix(f[0], ",")) {
			props = append(props, strings.TrimSuffix(f[0], ","))
			rest = strings.TrimSpace(f[1])
			continue
		}
		break
	}
	// label: identifier followed by ':' (but not '::' and not part of expression)
	if m := regexp.MustCompile(`^([A-Za-z_][A-Za-z0-9_.\-]*):\s`).FindStringSubmatch(rest); m != nil {
		label = m[1]
		rest = strings.TrimSpace(rest[len(m[0]):])
	}
	return
}

func parseSpecs(lines []ContractLine) *Specs {
	S := &Specs{Contracts: map[string]*Contract{}, Funcs: map[string]*SpecFunc{}, Ghosts: map[string]*GhostField{}, Consts: map[string]string{}, Immutable: map[string]bool{}, LockInvs: map[string]*LockInv{}, CloseOnly: map[string]bool{}, NoEffect: map[string]bool{}}
	var cur *Contract
	errf := func(l ContractLine, f string, a ...any) {
		S.Errors = append(S.Errors, fmt.Sprintf("%s:%d: %s", l.File, l.Line, fmt.Sprintf(f, a...)))
	}
	mkClause := func(l ContractLine, body string) (Clause, bool) {
		props, label, rest := takeProps(body)
		e, err := parseSExpr(rest)
		if err != nil {
			errf(l, "%v", err)
			return Clause{}, false
		}
		if len(props) == 0 && cur != nil {
			props = cur.Props
		}
		return Clause{Props: props, Label: label, E: e, Src: rest, File: l.File, Line: l.Line}, true
	}
	for _, l := range lines {
		t := strings.TrimSpace(l.Text)
		if t == "" {
			continue
		}
		kw := t
		body := ""
		if i := strings.IndexAny(t, " \t"); i >= 0 {
			kw, body = t[:i], strings.TrimSpace(t[i+1:])
		}
		switch kw {
		case "spec":
			// spec macro name(a T, b T) = expr   (expanded in the caller's state; parameters may be Go-typed)
			if mm := regexp.MustCompile(`^macro\s+([A-Za-z_][A-Za-z0-9_]*)\s*\(([^)]*)\)\s*=\s*(.*)$`).FindStringSubmatch(body); mm != nil {
				sf := &SpecFunc{Name: mm[1], Src: body, Macro: true}
				for _, p := range strings.Split(mm[2], ",") {
					f := strings.Fields(p)
					if len(f) != 2 {
						errf(l, "bad macro param %q", p)
						continue
					}
					sf.Params = append(sf.Params, BVar{f[0], f[1]})
				}
				e, err := parseSExpr(mm[3])
				if err != nil {
					errf(l, "%v", err)
					continue
				}
				sf.Body = e
				S.Funcs[sf.Name] = sf
				S.FuncOrder = append(S.FuncOrder, sf.Name)
				cur = nil
				continue
			}
			// spec func name(a T, b T) R [= expr]
			m := regexp.MustCompile(`^func\s+([A-Za-z_][A-Za-z0-9_]*)\s*\(([^)]*)\)\s*([A-Za-z]+)\s*(=\s*(.*))?$`).FindStringSubmatch(body)
			if m == nil {
				errf(l, "bad spec func: %s", body)
				continue
			}
			sf := &SpecFunc{Name: m[1], Ret: m[3], Src: body}
			if strings.TrimSpace(m[2]) != "" {
				for _, p := range strings.Split(m[2], ",") {
					f := strings.Fields(p)
					if len(f) != 2 {
						errf(l, "bad spec param %q", p)
						continue
					}
					sf.Params = append(sf.Params, BVar{f[0], f[1]})
				}
			}
			if m[5] != "" {
				e, err := parseSExpr(m[5])
				if err != nil {
					errf(l, "%v", err)
					continue
				}
				sf.Body = e
			}
			S.Funcs[sf.Name] = sf
			S.FuncOrder = append(S.FuncOrder, sf.Name)
			cur = nil
		case "const":
			f := strings.SplitN(body, "=", 2)
			if len(f) != 2 {
				errf(l, "bad const")
				continue
			}
			S.Consts[strings.TrimSpace(f[0])] = strings.TrimSpace(f[1])
		case "lemma", "axiom":
			props, label, rest := takeProps(body)
			uses := []string{}
			if i := strings.Index(rest, " using "); i >= 0 && false {
				_ = i
			}
			if m := regexp.MustCompile(`^\[using ([^\]]*)\]\s*`).FindStringSubmatch(rest); m != nil {
				for _, u := range strings.Split(m[1], ",") {
					uses = append(uses, strings.TrimSpace(u))
				}
				rest = rest[len(m[0]):]
			}
			e, err := parseSExpr(rest)
			if err != nil {
				errf(l, "%v", err)
				continue
			}
			S.Lemmas = append(S.Lemmas, &Lemma{Name: label, Props: props, E: e, Src: rest, File: l.File, Line: l.Line, Uses: uses, Axiom: kw == "axiom"})
			cur = nil
		case "ghost":
			// ghost field ice.Agent.gName int
			f := strings.Fields(body)
			if len(f) == 3 && f[0] == "field" {
				i := strings.LastIndex(f[1], ".")
				S.Ghosts[f[1]] = &GhostField{Type: f[1][:i], Name: f[1][i+1:], GType: f[2]}
			} else {
				errf(l, "bad ghost decl")
			}
		case "owner":
			// owner Cxx pkg.Type.field loop | onloop pkg.Func | ownerinit pkg.Type in F1, F2
			_, _, rest := takeProps(body)
			f := strings.Fields(rest)
			if len(f) >= 2 {
				i := strings.LastIndex(f[0], ".")
				S.Owners = append(S.Owners, OwnerDecl{Type: f[0][:i], Field: f[0][i+1:], Class: strings.Join(f[1:], " ")})
			}
			cur = nil
		case "onloop":
			f := strings.Fields(body)
			for _, k := range f {
				k = strings.TrimSuffix(k, ",")
				if !strings.Contains(k, ".") || strings.HasPrefix(k, "(") {
					k = l.Pkg + "." + k
				}
				i := strings.LastIndex(k, ".")
				S.Owners = append(S.Owners, OwnerDecl{Type: k[:i], Field: k[i+1:], Class: "onloop"})
			}
			cur = nil
		case "ownerinit":
			// ownerinit pkg.Type in F1, F2
			f := strings.SplitN(body, " in ", 2)
			if len(f) == 2 {
				S.Owners = append(S.Owners, OwnerDecl{Type: strings.TrimSpace(f[0]), Field: "*", Class: "init " + f[1]})
			}
			cur = nil
		case "immutable":
			// immutable Cxx pkg.Type.field in F1, F2: the field is stored only in the listed functions
			// (constructors/options that run before the object is shared); wildcard havocs keep it.
			props, _, rest := takeProps(body)
			f := strings.Fields(rest)
			if len(f) < 3 || f[1] != "in" {
				errf(l, "bad immutable declaration")
				continue
			}
			S.Immutable[f[0]] = true
			S.Enumerate = append(S.Enumerate, EnumDecl{Props: props, Kind: "stores", Args: f, File: l.File, Line: l.Line, Src: "immutable " + rest})
			cur = nil
		case "noeffect":
			// noeffect pkg.Type.funcField: calling the function stored in this field does not touch modelled state
			for _, f := range strings.Fields(strings.ReplaceAll(body, ",", " ")) {
				S.NoEffect[f] = true
			}
			cur = nil
		case "closeonly":
			for _, f := range strings.Fields(strings.ReplaceAll(body, ",", " ")) {
				S.CloseOnly[f] = true
			}
			cur = nil
		case "lockprotects":
			// lockprotects pkg.Type.mutexField f1, f2, ...
			f := strings.Fields(strings.ReplaceAll(body, ",", " "))
			if len(f) < 2 {
				errf(l, "bad lockprotects")
				continue
			}
			li := S.LockInvs[f[0]]
			if li == nil {
				li = &LockInv{Key: f[0]}
				S.LockInvs[f[0]] = li
			}
			li.Protects = append(li.Protects, f[1:]...)
			cur = nil
		case "lockinv":
			// lockinv [props] pkg.Type.mutexField label: expr   (expr over `this`)
			props, _, rest := takeProps(body)
			f := strings.SplitN(rest, " ", 2)
			if len(f) != 2 {
				errf(l, "bad lockinv")
				continue
			}
			li := S.LockInvs[f[0]]
			if li == nil {
				li = &LockInv{Key: f[0]}
				S.LockInvs[f[0]] = li
			}
			_, label, ex := takeProps(f[1])
			e, err := parseSExpr(ex)
			if err != nil {
				errf(l, "%v", err)
				continue
			}
			li.Clauses = append(li.Clauses, Clause{Props: props, Label: label, E: e, Src: ex, File: l.File, Line: l.Line})
			cur = nil
		case "enumerate":
			props, _, rest := takeProps(body)
			f := strings.Fields(rest)
			if len(f) < 1 {
				errf(l, "bad enumerate")
				continue
			}
			S.Enumerate = append(S.Enumerate, EnumDecl{Props: props, Kind: f[0], Args: f[1:], File: l.File, Line: l.Line, Src: rest})
		case "func", "iface", "extern":
			f := strings.Fields(body)
			if len(f) == 0 {
				errf(l, "func without name")
				continue
			}
			name := f[0]
			if !strings.Contains(name, ".") || strings.HasPrefix(name, "(") {
				name = l.Pkg + "." + name
			}
			key := name
			if kw == "iface" {
				key = "iface " + name
			}
			c := &Contract{Key: key, LoopInv: map[int][]Clause{}, LoopDec: map[int]*Clause{}, Safety: map[string]bool{}, File: l.File, Line: l.Line, Opts: map[string]string{}}
			if kw != "func" {
				c.NoBody = true
				c.Trusted = true
				c.Lib = true
			}
			// optional "(p1, p2) (r1, r2)" names for iface/extern
			rest := strings.TrimSpace(strings.TrimPrefix(body, f[0]))
			if strings.HasPrefix(rest, "(") {
				j := matchingParen(rest, 0)
				for _, p := range strings.Split(rest[1:j], ",") {
					if p = strings.TrimSpace(p); p != "" {
						c.Params = append(c.Params, p)
					}
				}
				rest = strings.TrimSpace(rest[j+1:])
				if strings.HasPrefix(rest, "(") {
					j := matchingParen(rest, 0)
					for _, p := range strings.Split(rest[1:j], ",") {
						if p = strings.TrimSpace(p); p != "" {
							c.Results = append(c.Results, p)
						}
					}
				}
			}
			if _, dup := S.Contracts[key]; dup {
				errf(l, "duplicate contract for %s", key)
			}
			S.Contracts[key] = c
			S.Order = append(S.Order, key)
			cur = c
		default:
			if cur == nil {
				errf(l, "clause %q outside a func contract", kw)
				continue
			}
			switch kw {
			case "props":
				cur.Props = strings.Fields(body)
			case "pure":
				cur.Pure = true
				cur.HasMod = true
			case "trusted":
				cur.Trusted = true
				cur.NoBody = true
			case "covers":
				cur.Covers = true
			case "conforms":
				// iface contract checked against every repository implementor
				cur.Conforms = true
				cur.Trusted = false
				if strings.TrimSpace(body) == "repo" {
					cur.ConformsRepo = true
				}
			case "opt":
				f := strings.SplitN(body, "=", 2)
				if len(f) == 2 {
					cur.Opts[strings.TrimSpace(f[0])] = strings.TrimSpace(f[1])
				} else {
					cur.Opts[strings.TrimSpace(body)] = "1"
				}
			case "results":
				cur.Results = strings.Fields(strings.ReplaceAll(body, ",", " "))
			case "safety":
				for _, s := range strings.Fields(body) {
					cur.Safety[s] = true
				}
			case "requires":
				if c, ok := mkClause(l, body); ok {
					cur.Requires = append(cur.Requires, c)
				}
			case "defines":
				// a ghost definition: assumed at call sites, not checked against the body (listed in evidence)
				if c, ok := mkClause(l, body); ok {
					cur.Defines = append(cur.Defines, c)
				}
			case "ghostvar":
				// ghostvar name int|bool [= init]
				f := strings.Fields(body)
				if len(f) < 2 {
					errf(l, "bad ghostvar")
					continue
				}
				gv := GhostVar{Name: f[0], GType: f[1]}
				if i := strings.Index(body, "="); i >= 0 {
					e, err := parseSExpr(body[i+1:])
					if err != nil {
						errf(l, "%v", err)
						continue
					}
					gv.Init = e
				}
				cur.GhostVars = append(cur.GhostVars, gv)
			case "ensures":
				if c, ok := mkClause(l, body); ok {
					cur.Ensures = append(cur.Ensures, c)
				}
			case "modifies":
				cur.HasMod = true
				for _, m := range splitTopLevel(body, ",") {
					if m = strings.TrimSpace(m); m != "" && m != "nothing" {
						cur.Modifies = append(cur.Modifies, m)
					}
				}
			case "loop":
				// loop K invariant ... | loop K decreases ...
				f := strings.SplitN(body, " ", 3)
				if len(f) < 3 {
					errf(l, "bad loop clause")
					continue
				}
				k, err := strconv.Atoi(f[0])
				if err != nil {
					errf(l, "bad loop ordinal")
					continue
				}
				c, ok := mkClause(l, f[2])
				if !ok {
					continue
				}
				switch f[1] {
				case "invariant":
					cur.LoopInv[k] = append(cur.LoopInv[k], c)
				case "decreases":
					cc := c
					cur.LoopDec[k] = &cc
				default:
					errf(l, "bad loop clause kind %s", f[1])
				}
			case "site":
				// site call NAME#K assert|assume|ghost [before|after] ...
				f := strings.SplitN(body, " ", 4)
				if len(f) < 4 {
					errf(l, "bad site clause")
					continue
				}
				sc := SiteClause{Kind: f[0], What: f[2]}
				tgt := f[1]
				if i := strings.LastIndex(tgt, "#"); i >= 0 {
					k, err := strconv.Atoi(tgt[i+1:])
					if err != nil {
						errf(l, "bad site ordinal")
						continue
					}
					sc.Ord = k
					tgt = tgt[:i]
				}
				sc.Target = tgt
				rest := f[3]
				if strings.HasPrefix(rest, "before ") {
					sc.When = "before"
					rest = rest[7:]
				} else if strings.HasPrefix(rest, "after ") {
					sc.When = "after"
					rest = rest[6:]
				}
				switch sc.What {
				case "assert", "assume":
					c, ok := mkClause(l, rest)
					if !ok {
						continue
					}
					sc.Clause = c
					if sc.When == "" {
						sc.When = "before"
					}
				case "ghost":
					props, _, r2 := takeProps(rest)
					parts := splitTopLevel(r2, ":=")
					if len(parts) != 2 {
						errf(l, "ghost update needs 'lhs := rhs'")
						continue
					}
					lhs, e1 := parseSExpr(parts[0])
					rhs, e2 := parseSExpr(parts[1])
					if e1 != nil || e2 != nil {
						errf(l, "bad ghost update: %v %v", e1, e2)
						continue
					}
					sc.GhostLHS, sc.GhostRHS = lhs, rhs
					sc.Clause = Clause{Props: props, Src: r2, File: l.File, Line: l.Line}
					if sc.When == "" {
						sc.When = "after"
					}
				default:
					errf(l, "bad site clause kind %q", sc.What)
					continue
				}
				cur.Sites = append(cur.Sites, sc)
			default:
				errf(l, "unknown clause %q", kw)
			}
		}
	}
	return S
}

func hasProp(props []string, id string) bool {
	for _, p := range props {
		if p == id {
			return true
		}
	}
	return false
}

// topLevelQuantifier: byte offset of the first "forall "/"exists " keyword at
// parenthesis depth 0 that is not at the start of s, or -1.
func topLevelQuantifier(s string) int {
	depth := 0
	for i := 0; i < len(s); i++ {
		switch s[i] {
		case '(', '[', '{':
			depth++
		case ')', ']', '}':
			depth--
		case '"':
			for i++; i < len(s) && s[i] != '"'; i++ {
				if s[i] == '\\' {
					i++
				}
			}
		}
		if depth == 0 && i > 0 && (strings.HasPrefix(s[i:], "forall ") || strings.HasPrefix(s[i:], "exists ")) {
			c := s[i-1]
			if c == ' ' || c == '&' || c == '|' || c == '(' {
				return i
			}
		}
	}
	return -1
}
