package main

// owner.go: permission ("owner") obligations for property C10. A field declared
//   //@ owner Cxx pkg.Type.field loop
// may only be read or written by code that runs as a task of the agent's loop:
// a function is loop-confined if it is a closure passed as the task to
// taskloop.(*Loop).Run / the onClose callback of taskloop.New, is declared
// `//@ onloop F` (entry points reached only through dynamic dispatch from loop
// code; each such declaration is itself checked: all of F's static callers must
// be confined), or if every one of its call sites in the repository lies in a
// loop-confined function (go statements do not count: they start another
// goroutine). Constructors listed with `//@ ownerinit T in F1, F2` may touch the
// fields of a T that is not yet shared. Each (function, field) access is one
// obligation, discharged by this call-graph analysis (no SMT).

import (
	"fmt"
	"go/types"
	"sort"
	"strings"

	"golang.org/x/tools/go/ssa"
)

type ownerSpec struct {
	props  []string
	fields map[string]string   // "ice.Agent.checklist" -> class
	onloop map[string]bool     // declared loop entry points
	init   map[string][]string // type -> constructor functions
}

func hostOf(fn *ssa.Function) *ssa.Function {
	return fn
}

func runOwnerAnalysis(P *Program, S *Specs, prop string) []*Obligation {
	var decls []OwnerDecl
	for _, d := range S.Owners {
		decls = append(decls, d)
	}
	if len(decls) == 0 {
		return nil
	}
	fields := map[string]string{}
	onloop := map[string]bool{}
	inits := map[string]map[string]bool{}
	relevant := false
	for _, d := range decls {
		switch {
		case d.Class == "onloop":
			onloop[d.Type+"."+d.Field] = true
		case strings.HasPrefix(d.Class, "init "):
			key := d.Type + "." + d.Field
			if inits[key] == nil {
				inits[key] = map[string]bool{}
			}
			for _, f := range strings.Fields(strings.ReplaceAll(strings.TrimPrefix(d.Class, "init "), ",", " ")) {
				if !strings.Contains(f, ".") || strings.HasPrefix(f, "(") {
					f = "ice." + f
				}
				inits[key][f] = true
			}
		default:
			fields[d.Type+"."+d.Field] = d.Class
			relevant = true
		}
	}
	if !relevant {
		return nil
	}
	_ = prop
	// call graph (static + invokes resolved by method name over repo types)
	callers := map[*ssa.Function][]*ssa.Function{} // callee -> callers (sync calls only)
	seeds := map[*ssa.Function]bool{}
	var all []*ssa.Function
	for _, fn := range P.Funcs {
		all = append(all, fn)
	}
	sort.Slice(all, func(i, j int) bool { return funcKey(all[i]) < funcKey(all[j]) })
	methodsByName := map[string][]*ssa.Function{}
	for _, fn := range all {
		if fn.Signature.Recv() != nil {
			methodsByName[fn.Name()] = append(methodsByName[fn.Name()], fn)
		}
	}
	for _, fn := range all {
		for _, b := range fn.Blocks {
			for _, in := range b.Instrs {
				ci, ok := in.(ssa.CallInstruction)
				if !ok {
					continue
				}
				c := ci.Common()
				_, isGo := in.(*ssa.Go)
				if callee := c.StaticCallee(); callee != nil {
					k := funcKey(callee)
					if k == "taskloop.(*Loop).Run" && len(c.Args) >= 3 {
						if mc, ok := c.Args[2].(*ssa.MakeClosure); ok {
							seeds[mc.Fn.(*ssa.Function)] = true
						}
					}
					if k == "taskloop.New" && len(c.Args) >= 1 {
						if mc, ok := c.Args[0].(*ssa.MakeClosure); ok {
							seeds[mc.Fn.(*ssa.Function)] = true
						}
					}
					if !isGo {
						callers[callee] = append(callers[callee], fn)
					}
					// closures passed to sync.Once.Do / called directly run synchronously in the caller
					for _, a := range c.Args {
						if mc, ok := a.(*ssa.MakeClosure); ok && !isGo {
							if k == "sync.(*Once).Do" {
								callers[mc.Fn.(*ssa.Function)] = append(callers[mc.Fn.(*ssa.Function)], fn)
							}
						}
					}
					continue
				}
				if c.IsInvoke() && !isGo {
					if n, ok := types.Unalias(c.Value.Type()).(*types.Named); ok && n.Obj().Pkg() != nil && P.RepoPkgs[n.Obj().Pkg().Path()] {
						for _, m := range methodsByName[c.Method.Name()] {
							callers[m] = append(callers[m], fn)
						}
					}
					continue
				}
				// direct call of a closure value created in this function
				if mc, ok := c.Value.(*ssa.MakeClosure); ok && !isGo {
					callers[mc.Fn.(*ssa.Function)] = append(callers[mc.Fn.(*ssa.Function)], fn)
				}
			}
		}
	}
	confined := map[*ssa.Function]bool{}
	for f := range seeds {
		confined[f] = true
	}
	declared := map[*ssa.Function]bool{}
	for k := range onloop {
		if f := P.Funcs[k]; f != nil {
			confined[f] = true
			declared[f] = true
		}
	}
	// closures called locally through a variable (defer func(){..}(), contact := func(){}; contact()):
	// treat a closure as called by its parent unless it is only ever started with `go` or passed away.
	localCall := func(an *ssa.Function) bool {
		p := an.Parent()
		if p == nil {
			return false
		}
		for _, b := range p.Blocks {
			for _, in := range b.Instrs {
				mc, ok := in.(*ssa.MakeClosure)
				if !ok || mc.Fn != an {
					continue
				}
				refs := mc.Referrers()
				if refs == nil {
					return false
				}
				okAll := len(*refs) > 0
				for _, r := range *refs {
					switch u := r.(type) {
					case *ssa.Call:
						if u.Call.Value != ssa.Value(mc) {
							okAll = false
						}
					case *ssa.Defer:
						if u.Call.Value != ssa.Value(mc) {
							okAll = false
						}
					case *ssa.DebugRef:
					default:
						okAll = false
					}
				}
				return okAll
			}
		}
		return false
	}
	for _, fn := range all {
		if fn.Parent() != nil && !seeds[fn] && localCall(fn) {
			callers[fn] = append(callers[fn], fn.Parent())
		}
	}
	// greatest fixpoint (so that mutually recursive loop functions stay confined): start from
	// "every function with at least one synchronous call site", then repeatedly drop functions
	// with a call site in a non-confined function.
	base := map[*ssa.Function]bool{}
	for f := range confined {
		base[f] = true
	}
	for _, fn := range all {
		if len(callers[fn]) > 0 && !isPublicAPI(fn) {
			confined[fn] = true
		}
	}
	changed := true
	for changed {
		changed = false
		for _, fn := range all {
			if !confined[fn] || base[fn] {
				continue
			}
			for _, c := range callers[fn] {
				if !confined[c] {
					delete(confined, fn)
					changed = true
					break
				}
			}
		}
	}
	var out []*Obligation
	props := []string{"C10"}
	// declared entry points must themselves only be called from confined code (or have no static caller)
	var dks []string
	for f := range declared {
		dks = append(dks, funcKey(f))
	}
	sort.Strings(dks)
	for _, k := range dks {
		f := P.Funcs[k]
		var bad []string
		for _, c := range callers[f] {
			if !confined[c] {
				bad = append(bad, funcKey(c))
			}
		}
		o := &Obligation{Name: "owner/onloop-declaration@" + k, Props: props, Kind: "owner", Fn: k, Reach: "true", Goal: "true", Status: "unsat", Backend: "syntactic (call-graph confinement)",
			Src: "declared loop entry point " + k + " is called only from loop-confined code"}
		if len(bad) > 0 {
			o.Status, o.Goal = "unbound", "false"
			o.Src = fmt.Sprintf("%s is declared onloop but is called from code that is not loop-confined: %s", k, strings.Join(bad, ", "))
		}
		out = append(out, o)
	}
	// accesses
	seen := map[string]bool{}
	for _, fn := range all {
		if fn.Synthetic != "" && !strings.Contains(fn.Name(), "$") {
			continue
		}
		k := funcKey(fn)
		for _, b := range fn.Blocks {
			for _, in := range b.Instrs {
				fa, ok := in.(*ssa.FieldAddr)
				if !ok {
					continue
				}
				T := fa.X.Type().Underlying().(*types.Pointer).Elem()
				fk := typeNameOf(T) + "." + fieldName(T, fa.Field)
				class, owned := fields[fk]
				if !owned || class != "loop" {
					continue
				}
				name := "owner/" + fk + "@" + k
				if seen[name] {
					continue
				}
				seen[name] = true
				o := &Obligation{Name: name, Props: props, Kind: "owner", Fn: k, Reach: "true", Goal: "true", Status: "unsat", Backend: "syntactic (call-graph confinement)",
					Pos: P.Fset.Position(fa.Pos()), Src: "access to loop-owned field " + fk + " only from loop-confined code"}
				host := fn
				okc := confined[host]
				if !okc {
					if m := inits[typeNameOf(T)+"."+"*"]; m != nil && m[k] {
						okc = true
					}
					// closures of constructors
					for p := fn.Parent(); p != nil && !okc; p = p.Parent() {
						if m := inits[typeNameOf(T)+".*"]; m != nil && m[funcKey(p)] {
							okc = true
						}
					}
				}
				if !okc {
					o.Status, o.Goal = "unbound", "false"
					o.Src = fmt.Sprintf("%s accesses loop-owned field %s but is not loop-confined (it is reachable from a goroutine entry / exported API without going through loop.Run)", k, fk)
				}
				out = append(out, o)
			}
		}
	}
	return out
}

// isPublicAPI: an exported function, or an exported method of an exported type:
// callable from any goroutine of the application, hence never loop-confined by
// virtue of its callers inside the repository.
func isPublicAPI(fn *ssa.Function) bool {
	if fn.Parent() != nil || fn.Object() == nil || !fn.Object().Exported() {
		return false
	}
	if recv := fn.Signature.Recv(); recv != nil {
		t := recv.Type()
		if pt, ok := t.Underlying().(*types.Pointer); ok {
			t = pt.Elem()
		}
		if n, ok := types.Unalias(t).(*types.Named); ok {
			return n.Obj().Exported()
		}
		return false
	}
	return true
}
