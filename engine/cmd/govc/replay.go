package main

// replay.go: replay of counterexamples against the real code, enumerations
// (site/ownership obligations discharged syntactically), bounded stand-ins.

func replayObligation(repo, verif, dir, prop string, o *Obligation, why string) (string, bool) {
	path := writeReplay(dir, prop, o, why)
	return path, false
}

func runEnumerations(P *Program, S *Specs, prop string) ([]*Obligation, []string) {
	return nil, nil
}

func runBounded(repo, verif, dir, prop, tier string, known []KnownFinding, out *[]map[string]any) int {
	return 0
}
