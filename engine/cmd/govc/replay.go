package main

// replay.go: replay of solver counterexamples against the real code.
//
// A fixture (/verif/replay/fixtures/*.go.tmpl) names the functions it serves,
// a list of "model" expressions (contract language, evaluated in the entry
// state of the failing function) and a Go test body with {{name}} placeholders.
// On a sat answer the engine asks the solver for the values of the model
// expressions, instantiates the test, injects it into package ice with
// `go test -overlay` (nothing is written to the repository) and looks for the
// line REPLAY-VIOLATED / REPLAY-HOLDS printed by the test.

import (
	"context"
	"go/token"
	"go/types"

	"golang.org/x/tools/go/ssa"
	"encoding/json"
	"flag"
	"fmt"
	"os"
	"os/exec"
	"path/filepath"
	"regexp"
	"strings"
	"time"
)

type Fixture struct {
	File   string
	Funcs  []string
	Models [][2]string // name, expr
	Body   string
	Pkg    string // directory relative to repo ("." default)
	Search bool   // the test enumerates a finite set of real inputs itself: no model values needed
}

func loadFixtures(verif string) []*Fixture {
	files, _ := filepath.Glob(filepath.Join(verif, "replay", "fixtures", "*.go.tmpl"))
	var out []*Fixture
	for _, f := range files {
		data, err := os.ReadFile(f)
		if err != nil {
			continue
		}
		fx := &Fixture{File: f, Pkg: "."}
		var body []string
		for _, l := range strings.Split(string(data), "\n") {
			switch {
			case strings.HasPrefix(l, "//fixture:"):
				for _, kv := range strings.Fields(strings.TrimPrefix(l, "//fixture:")) {
					if strings.HasPrefix(kv, "funcs=") {
						fx.Funcs = strings.Split(strings.TrimPrefix(kv, "funcs="), ",")
					}
					if strings.HasPrefix(kv, "pkg=") {
						fx.Pkg = strings.TrimPrefix(kv, "pkg=")
					}
					if kv == "search=1" {
						fx.Search = true
					}
				}
			case strings.HasPrefix(l, "//model:"):
				kv := strings.SplitN(strings.TrimPrefix(l, "//model:"), "=", 2)
				if len(kv) == 2 {
					fx.Models = append(fx.Models, [2]string{strings.TrimSpace(kv[0]), strings.TrimSpace(kv[1])})
				}
			default:
				body = append(body, l)
			}
		}
		fx.Body = strings.Join(body, "\n")
		out = append(out, fx)
	}
	return out
}

func findFixture(fxs []*Fixture, fn string) *Fixture {
	for _, f := range fxs {
		for _, k := range f.Funcs {
			if k == fn {
				return f
			}
		}
	}
	return nil
}

var valueRe = regexp.MustCompile(`^\(\s*- (\d+)\)$`)

func parseSMTValue(s string) string {
	s = strings.TrimSpace(s)
	if m := valueRe.FindStringSubmatch(s); m != nil {
		return "-" + m[1]
	}
	return s
}

// modelValues asks the solver that answered sat for the values of terms.
func modelValues(o *Obligation, terms []string, opts solveOpts) ([]string, string) {
	if len(terms) == 0 {
		return nil, ""
	}
	q := o.queryText(false)
	// the model terms may have introduced new declarations after the prefix: rebuild with the extended prefix
	var b strings.Builder
	b.WriteString("(set-option :produce-models true)\n(set-logic ALL)\n")
	for i, l := range o.vc.lines {
		// after the obligation's prefix only declarations are kept: later assertions could change the model space
		if i >= o.Prefix && !strings.HasPrefix(l, "(declare-") && !strings.HasPrefix(l, "(define-") {
			continue
		}
		if o.relaxed && strings.Contains(l, "(forall ") {
			continue
		}
		b.WriteString(l)
		b.WriteByte('\n')
	}
	_ = q
	if o.Reach != "" && o.Reach != "true" {
		b.WriteString("(assert " + o.Reach + ")\n")
	}
	b.WriteString("(assert (not " + o.Goal + "))\n(check-sat)\n")
	for _, t := range terms {
		b.WriteString("(get-value (" + t + "))\n")
	}
	file := filepath.Join(opts.workdir, sanitizeFile(o.Name)+".values.smt2")
	os.WriteFile(file, []byte(b.String()), 0o644)
	var text string
	for _, s := range solvers {
		st, out, _ := runSolver(context.Background(), s, file, opts)
		if st == "sat" {
			text = out
			break
		}
	}
	if text == "" {
		return nil, ""
	}
	lines := strings.Split(text, "\n")
	var vals []string
	// each get-value answer: ((term value)) possibly multi-line; join and split on top-level parens
	rest := strings.Join(lines[1:], " ")
	depth := 0
	start := -1
	for i, c := range rest {
		switch c {
		case '(':
			if depth == 0 {
				start = i
			}
			depth++
		case ')':
			depth--
			if depth == 0 && start >= 0 {
				item := rest[start+2 : i-1] // strip "((" and "))"
				// value = last s-expression of item
				item = strings.TrimSpace(item)
				v := lastSExpr(item)
				vals = append(vals, parseSMTValue(v))
				start = -1
			}
		}
	}
	return vals, text
}

func lastSExpr(s string) string {
	s = strings.TrimSpace(s)
	if strings.HasSuffix(s, ")") {
		depth := 0
		for i := len(s) - 1; i >= 0; i-- {
			switch s[i] {
			case ')':
				depth++
			case '(':
				depth--
				if depth == 0 {
					return s[i:]
				}
			}
		}
	}
	if i := strings.LastIndexAny(s, " \t"); i >= 0 {
		return s[i+1:]
	}
	return s
}

var replayFixtures []*Fixture
var replaySolveOpts solveOpts

func replayObligation(repo, verif, dir, prop string, o *Obligation, why string) (string, bool) {
	path := filepath.Join(dir, prop+"_"+sanitizeFile(o.Name)+".txt")
	var b strings.Builder
	fmt.Fprintf(&b, "property: %s\nobligation: %s\nkind: %s\nfunction: %s\nposition: %s\nclause: %s\nresult: %s\nbackend: %s\n\n%s\n\n", prop, o.Name, o.Kind, o.Fn, o.Pos, o.Src, o.Status, o.Backend, why)
	reproduced := false
	if replayFixtures == nil {
		replayFixtures = loadFixtures(verif)
	}
	if fx := findFixture(replayFixtures, o.Fn); fx != nil && fx.Search && o.Status != "unbound" {
		// an input-search fixture: the failed obligation gives no usable model (uninterpreted library facts,
		// quantifiers), so the fixture tries a fixed list of real inputs against the clause's meaning
		out, verdict := runReplayTest(repo, fx.Pkg, fx.Body)
		cmd := fmt.Sprintf("cd %s/%s && go test -overlay <ov.json mapping zz_verif_replay_test.go> -vet=off -count=1 -timeout 60s -run TestVerifReplay .", repo, fx.Pkg)
		fmt.Fprintf(&b, "input search (no solver model needed; the test enumerates real inputs):\nreplay command: %s\nreplay verdict: %s\n", cmd, verdict)
		fmt.Fprintf(&b, "---- replay test (package %s) ----\n//REPLAY-BEGIN pkg=%s\n%s\n//REPLAY-END\n---- replay output ----\n%s\n", fx.Pkg, fx.Pkg, fx.Body, truncate(out, 4000))
		reproduced = verdict == "violated"
	} else if o.Status == "sat" && o.fr != nil {
		if fx := findFixture(replayFixtures, o.Fn); fx != nil {
			env := o.fr.envAt(o.fr.entry, o.fr.entry.heap, "replay model expression")
			var terms []string
			okTerms := true
			nerr := len(o.vc.errors)
			for _, m := range fx.Models {
				se, err := parseSExpr(m[1])
				if err != nil {
					okTerms = false
					break
				}
				terms = append(terms, env.eval(se).T())
			}
			if len(o.vc.errors) > nerr {
				okTerms = false
				fmt.Fprintf(&b, "replay: model expressions could not be evaluated: %v\n", o.vc.errors[nerr:])
				o.vc.errors = o.vc.errors[:nerr]
			}
			if okTerms {
				vals, _ := modelValues(o, terms, replaySolveOpts)
				if len(vals) == len(terms) {
					src := fx.Body
					fmt.Fprintf(&b, "counterexample (values of the fixture's model expressions):\n")
					for i, m := range fx.Models {
						fmt.Fprintf(&b, "  %s = %s   (%s)\n", m[0], vals[i], m[1])
						src = strings.ReplaceAll(src, "{{"+m[0]+"}}", goLiteral(vals[i]))
					}
					out, verdict := runReplayTest(repo, fx.Pkg, src)
					cmd := fmt.Sprintf("cd %s/%s && go test -overlay <ov.json mapping zz_verif_replay_test.go> -vet=off -count=1 -timeout 60s -run TestVerifReplay .", repo, fx.Pkg)
					fmt.Fprintf(&b, "\nreplay command: %s\nreplay verdict: %s\n", cmd, verdict)
					fmt.Fprintf(&b, "---- replay test (package %s) ----\n//REPLAY-BEGIN pkg=%s\n%s\n//REPLAY-END\n---- replay output ----\n%s\n", fx.Pkg, fx.Pkg, src, truncate(out, 4000))
					reproduced = verdict == "violated"
				} else {
					fmt.Fprintf(&b, "replay: the solver did not return values for the model expressions\n")
				}
			}
		} else {
			fmt.Fprintf(&b, "replay: no fixture for %s\n", o.Fn)
		}
	}
	if o.Model != "" {
		b.WriteString("---- solver output ----\n")
		b.WriteString(truncate(o.Model, 20000))
		b.WriteString("\n")
	}
	os.WriteFile(path, []byte(b.String()), 0o644)
	return path, reproduced
}

func goLiteral(v string) string {
	switch v {
	case "true", "false":
		return v
	}
	return v
}

// runReplayTest injects src as a test file of package dir pkg of the repo via -overlay.
func runReplayTest(repo, pkg, src string) (string, string) {
	tmp, err := os.MkdirTemp("", "govc-replay-")
	if err != nil {
		return err.Error(), "error"
	}
	defer os.RemoveAll(tmp)
	testFile := filepath.Join(tmp, "zz_verif_replay_test.go")
	os.WriteFile(testFile, []byte(src), 0o644)
	target := filepath.Join(repo, pkg, "zz_verif_replay_test.go")
	ov, _ := json.Marshal(map[string]any{"Replace": map[string]string{target: testFile}})
	ovFile := filepath.Join(tmp, "ov.json")
	os.WriteFile(ovFile, ov, 0o644)
	ctx, cancel := context.WithTimeout(context.Background(), 180*time.Second)
	defer cancel()
	cmd := exec.CommandContext(ctx, "go", "test", "-overlay", ovFile, "-vet=off", "-count=1", "-timeout", "60s", "-run", "TestVerifReplay", ".")
	cmd.Dir = filepath.Join(repo, pkg)
	cmd.Env = append(os.Environ(), "GOFLAGS=-mod=mod", "GOPROXY=off")
	out, _ := cmd.CombinedOutput()
	text := string(out)
	switch {
	case strings.Contains(text, "REPLAY-VIOLATED"):
		return text, "violated"
	case strings.Contains(text, "REPLAY-HOLDS"):
		return text, "holds"
	}
	return text, "inconclusive"
}

// cmdReplay re-runs the replay test embedded in a replay file.
func cmdReplay(args []string) int {
	fl := flag.NewFlagSet("replay", flag.ExitOnError)
	repo := fl.String("repo", "/repo", "")
	_ = fl.String("verif", "/verif", "")
	prop := fl.String("prop", "", "")
	file := fl.String("file", "", "")
	fl.Parse(args)
	data, err := os.ReadFile(*file)
	if err != nil {
		fmt.Fprintln(os.Stderr, err)
		return 2
	}
	text := string(data)
	i := strings.Index(text, "//REPLAY-BEGIN")
	j := strings.Index(text, "//REPLAY-END")
	if i < 0 || j < 0 {
		fmt.Println("this replay file carries no executable counterexample (no-failing-input-found); obligation and solver output:")
		fmt.Println(truncate(text, 3000))
		return 1
	}
	head := text[i:j]
	nl := strings.Index(head, "\n")
	pkg := "."
	if m := regexp.MustCompile(`pkg=(\S+)`).FindStringSubmatch(head[:nl]); m != nil {
		pkg = m[1]
	}
	if m := regexp.MustCompile(`run=(\S+)`).FindStringSubmatch(head[:nl]); m != nil {
		out, _ := runOverlayTest(*repo, pkg, head[nl+1:], m[1], "thorough")
		fmt.Println(out)
		if strings.Contains(out, "BOUNDED-FAIL") {
			fmt.Printf("VIOLATION property=%s replay=%s\n", *prop, *file)
			return 1
		}
		return 0
	}
	out, verdict := runReplayTest(*repo, pkg, head[nl+1:])
	fmt.Println(out)
	fmt.Printf("replay verdict: %s\n", verdict)
	if verdict == "violated" {
		fmt.Printf("VIOLATION property=%s replay=%s\n", *prop, *file)
		return 1
	}
	return 0
}

// runEnumerations: "enumerate" declarations are discharged syntactically over
// the SSA of every repository function:
//   enumerate Cxx stores pkg.Type.field in F1, F2, ...   every Store to that field is in one of the listed functions
//   enumerate Cxx calls  pkg.Func        in F1, F2, ...   every call (static or go/defer) of that function is in one of them
// Each site found is one obligation (kind site-enum); a site outside the list fails.
func runEnumerations(P *Program, S *Specs, prop string) ([]*Obligation, []string) {
	var out []*Obligation
	var errs []string
	for _, en := range S.Enumerate {
		if !hasProp(en.Props, prop) {
			continue
		}
		if len(en.Args) < 3 || en.Args[1] != "in" {
			errs = append(errs, fmt.Sprintf("%s:%d: enumerate needs '<kind> <target> in F1, F2'", en.File, en.Line))
			continue
		}
		target := en.Args[0]
		// "calls pkg.(*T).M@pkg.S.f": only the calls whose receiver is read from field f of S
		callTarget, recvField := target, ""
		if i := strings.Index(target, "@"); i >= 0 && en.Kind == "calls" {
			callTarget, recvField = target[:i], target[i+1:]
		}
		fieldSeen := false
		allowed := map[string]bool{}
		for _, a := range en.Args[2:] {
			a = strings.TrimSuffix(strings.TrimSpace(a), ",")
			if a == "" || a == "nowhere" {
				continue
			}
			if !strings.Contains(a, ".") || strings.HasPrefix(a, "(") {
				a = "ice." + a
			}
			allowed[a] = true
			if _, ok := P.Funcs[a]; !ok {
				out = append(out, &Obligation{Name: fmt.Sprintf("enumerate/%s.%s/contract-binding#%s", en.Kind, target, a), Props: en.Props, Kind: "contract-binding", Fn: a, Status: "unbound", Goal: "false", Reach: "true",
					Src: "enumerate lists a function that does not exist: " + a})
			}
		}
		var keys []string
		for k := range P.Funcs {
			keys = append(keys, k)
		}
		sortStrings(keys)
		found := 0
		for _, k := range keys {
			fn := P.Funcs[k]
			if fn.Synthetic != "" && !strings.Contains(fn.Name(), "$") {
				continue
			}
			host := k
			// closures count as part of their outermost parent
			for p := fn; p.Parent() != nil; p = p.Parent() {
				host = funcKey(p.Parent())
			}
			n := 0
			for _, b := range fn.Blocks {
				for _, in := range b.Instrs {
					hit := false
					switch en.Kind {
					case "stores":
						if st, ok := in.(*ssa.Store); ok {
							if fa, ok := st.Addr.(*ssa.FieldAddr); ok {
								T := fa.X.Type().Underlying().(*types.Pointer).Elem()
								if typeNameOf(T)+"."+fieldName(T, fa.Field) == target {
									hit = true
								}
							}
						}
					case "calls":
						if ci, ok := in.(ssa.CallInstruction); ok {
							c := ci.Common()
							if f := c.StaticCallee(); f != nil && funcKey(f) == callTarget {
								hit = recvField == "" || (len(c.Args) > 0 && loadedFromField(c.Args[0]) == recvField)
							}
							if c.IsInvoke() && "iface "+typeNameOf(c.Value.Type())+"."+c.Method.Name() == target {
								hit = true
							}
						}
						// taking the function as a value also counts
						if mc, ok := in.(*ssa.MakeClosure); ok {
							if f, ok := mc.Fn.(*ssa.Function); ok && funcKey(f) == target {
								hit = true
							}
						}
					}
					if recvField != "" {
						if fa, ok := in.(*ssa.FieldAddr); ok {
							T := fa.X.Type().Underlying().(*types.Pointer).Elem()
							if typeNameOf(T)+"."+fieldName(T, fa.Field) == recvField {
								fieldSeen = true
							}
						}
					}
					if !hit {
						continue
					}
					n++
					found++
					o := &Obligation{Name: fmt.Sprintf("enumerate/%s.%s/site-enum#%s.%d", en.Kind, target, host, n), Props: en.Props, Kind: "site-enum", Fn: host, Reach: "true",
						Src: en.Src, Pos: P.Fset.Position(in.Pos()), Backend: "syntactic (SSA scan)"}
					if allowed[host] {
						o.Status = "unsat"
						o.Goal = "true"
					} else {
						o.Status = "unbound"
						o.Goal = "false"
						o.Src = fmt.Sprintf("%s %s occurs in %s, which is outside the enumerated set {%s}", en.Kind, target, host, strings.Join(en.Args[2:], " "))
					}
					out = append(out, o)
				}
			}
		}
		if found == 0 && len(en.Args) == 3 && en.Args[2] == "nowhere" {
			// "in nowhere": the target must have no site at all; to keep the clause from silently
			// detaching, the target itself has to exist in the program
			exists := P.Funcs[target] != nil || fieldSeen
			for k := range P.Funcs {
				if k == target || strings.HasSuffix(k, "."+strings.TrimPrefix(target, "ice.")) {
					exists = true
				}
			}
			st, goal, src := "unsat", "true", en.Src
			if !exists && en.Kind == "calls" {
				st, goal, src = "unbound", "false", "enumerate target does not exist (renamed?): "+target
			}
			out = append(out, &Obligation{Name: fmt.Sprintf("enumerate/%s.%s/site-enum#nowhere", en.Kind, target), Props: en.Props, Kind: "site-enum", Status: st, Goal: goal, Reach: "true",
				Src: src, Backend: "syntactic (SSA scan)"})
			continue
		}
		if found == 0 {
			out = append(out, &Obligation{Name: fmt.Sprintf("enumerate/%s.%s/contract-binding", en.Kind, target), Props: en.Props, Kind: "contract-binding", Status: "unbound", Goal: "false", Reach: "true",
				Src: "enumerate target has no site at all (renamed?): " + target})
		}
	}
	return out, errs
}

// loadedFromField: "pkg.T.f" when v is a load of field f of a *T, else "".
func loadedFromField(v ssa.Value) string {
	u, ok := v.(*ssa.UnOp)
	if !ok || u.Op != token.MUL {
		return ""
	}
	fa, ok := u.X.(*ssa.FieldAddr)
	if !ok {
		return ""
	}
	T := fa.X.Type().Underlying().(*types.Pointer).Elem()
	return typeNameOf(T) + "." + fieldName(T, fa.Field)
}

func typeNameOf(t types.Type) string {
	return types.TypeString(t, func(p *types.Package) string { return p.Name() })
}

// runBounded executes the bounded stand-ins of a property
// (/verif/bounded/<prop>_*_test.go.tmpl): Go tests of package ice injected with
// -overlay that enumerate a finite domain on the REAL code. They are reported
// under coverage.bounded with their bound and are never counted as obligations.
func runBounded(repo, verif, dir, prop, tier string, known []KnownFinding, out *[]map[string]any) int {
	files, _ := filepath.Glob(filepath.Join(verif, "bounded", prop+"_*_test.go.tmpl"))
	violations := 0
	for _, f := range files {
		data, err := os.ReadFile(f)
		if err != nil {
			continue
		}
		t0 := time.Now()
		text, verdict := runOverlayTest(repo, ".", string(data), "TestVerifBounded", tier)
		cases, distinct := 0, 0
		var fails []string
		for _, l := range strings.Split(text, "\n") {
			l = strings.TrimSpace(l)
			if strings.HasPrefix(l, "BOUNDED-CASES") {
				fmt.Sscanf(l, "BOUNDED-CASES %d distinct %d", &cases, &distinct)
			}
			if strings.HasPrefix(l, "BOUNDED-FAIL") {
				fails = append(fails, strings.TrimPrefix(l, "BOUNDED-FAIL "))
			}
		}
		var unknownFails, knownHits []string
		for _, fl := range fails {
			matched := false
			for i := range known {
				k := &known[i]
				if k.Status == "known" && k.Property == prop && k.Bounded != "" && strings.Contains(fl, k.Bounded) {
					matched = true
					knownHits = append(knownHits, k.What)
				}
			}
			if !matched {
				unknownFails = append(unknownFails, fl)
			}
		}
		seen := map[string]bool{}
		for _, k := range knownHits {
			if !seen[k] {
				seen[k] = true
				fmt.Printf("KNOWN-FINDING: property=%s %s [bounded stand-in %s]\n", prop, k, filepath.Base(f))
			}
		}
		entry := map[string]any{"stand_in": filepath.Base(f), "label": "bounded (executed on the real code; not a proof, not counted in obligations)", "cases": cases, "distinct_texts": distinct,
			"failures": len(unknownFails), "known_finding_cases": len(fails) - len(unknownFails), "wall_s": round3(time.Since(t0).Seconds()), "bound": boundOf(string(data))}
		*out = append(*out, entry)
		_ = verdict
		if cases == 0 {
			violations++
			p := filepath.Join(dir, prop+"_bounded_"+sanitizeFile(filepath.Base(f))+".txt")
			os.WriteFile(p, []byte("bounded stand-in could not run (does the tree compile?)\n"+truncate(text, 6000)), 0o644)
			fmt.Printf("VIOLATION property=%s replay=%s no-failing-input-found\n", prop, p)
			continue
		}
		if len(unknownFails) > 0 {
			violations++
			p := filepath.Join(dir, prop+"_bounded_"+sanitizeFile(filepath.Base(f))+".txt")
			var b strings.Builder
			fmt.Fprintf(&b, "property: %s\nbounded stand-in: %s\nfailing cases (first 40):\n", prop, f)
			for i, fl := range unknownFails {
				if i >= 40 {
					break
				}
				b.WriteString("  " + fl + "\n")
			}
			fmt.Fprintf(&b, "\nreplay command: ./check %s --replay %s\n//REPLAY-BEGIN pkg=. run=TestVerifBounded\n%s\n//REPLAY-END\n", prop, p, string(data))
			os.WriteFile(p, []byte(b.String()), 0o644)
			fmt.Printf("VIOLATION property=%s replay=%s\n", prop, p)
			fmt.Printf("  bounded stand-in %s: %d failing case(s), e.g. %s\n", filepath.Base(f), len(unknownFails), truncate(unknownFails[0], 300))
		}
	}
	return violations
}

func boundOf(src string) string {
	var b []string
	on := false
	for _, l := range strings.Split(src, "\n") {
		if strings.Contains(l, "Bound:") {
			on = true
		}
		if on {
			if !strings.HasPrefix(l, "//") {
				break
			}
			b = append(b, strings.TrimSpace(strings.TrimPrefix(l, "//")))
		}
	}
	return strings.Join(b, " ")
}

// runOverlayTest injects src as zz_verif_bounded_test.go of package dir pkg and runs one test.
func runOverlayTest(repo, pkg, src, run, tier string) (string, string) {
	tmp, err := os.MkdirTemp("", "govc-bounded-")
	if err != nil {
		return err.Error(), "error"
	}
	defer os.RemoveAll(tmp)
	testFile := filepath.Join(tmp, "zz_verif_bounded_test.go")
	os.WriteFile(testFile, []byte(src), 0o644)
	target := filepath.Join(repo, pkg, "zz_verif_bounded_test.go")
	ov, _ := json.Marshal(map[string]any{"Replace": map[string]string{target: testFile}})
	ovFile := filepath.Join(tmp, "ov.json")
	os.WriteFile(ovFile, ov, 0o644)
	ctx, cancel := context.WithTimeout(context.Background(), 600*time.Second)
	defer cancel()
	cmd := exec.CommandContext(ctx, "go", "test", "-overlay", ovFile, "-vet=off", "-count=1", "-v", "-timeout", "300s", "-run", run, ".")
	cmd.Dir = filepath.Join(repo, pkg)
	cmd.Env = append(os.Environ(), "GOFLAGS=-mod=mod", "GOPROXY=off", "VERIF_TIER="+tier)
	outb, err := cmd.CombinedOutput()
	if err != nil {
		return string(outb), "fail"
	}
	return string(outb), "ok"
}
