package main

// known.go: known findings (witness split), enumerations, bounded stand-ins,
// replay. (Replay fixtures live in replay.go.)

import (
	"strings"
)

// applyKnown splits every obligation matched by a known finding into the part
// outside the witness (must still be discharged) and the part inside it
// (expected to fail; reported as KNOWN-FINDING).
func applyKnown(all []*Obligation, known []KnownFinding, prop string) []*Obligation {
	var out []*Obligation
	for _, o := range all {
		var kf *KnownFinding
		for i := range known {
			k := &known[i]
			if k.Status != "known" || k.Property != prop || k.Obligation == "" {
				continue
			}
			if strings.HasPrefix(o.Name, k.Obligation) {
				kf = k
				break
			}
		}
		if kf != nil && (o.Kind == "owner" || o.Kind == "site-enum") {
			// syntactic obligations have no input space to split: the listed site is the finding
			if o.Status != "unsat" {
				o.Known = kf
				o.knownPart = "inside"
			}
			out = append(out, o)
			continue
		}
		if kf == nil || o.Cover || o.env == nil {
			out = append(out, o)
			continue
		}
		se, err := parseSExpr(kf.Witness)
		if err != nil {
			out = append(out, o)
			continue
		}
		w := o.env.evalAssume(se).T()
		outside := *o
		outside.Goal = or(w, o.Goal)
		outside.Prefix = len(o.vc.lines)
		outside.Known = kf
		outside.knownPart = "outside"
		inside := *o
		inside.Name = o.Name + "[known]"
		inside.Goal = imp(w, o.Goal)
		inside.Prefix = len(o.vc.lines)
		inside.Known = kf
		inside.knownPart = "inside"
		out = append(out, &outside, &inside)
	}
	return out
}

func propAssumptions(prop string, notes []string) []string {
	base := []string{
		"the VC generator (go/ssa -> SMT translation, /verif/engine) is trusted; mitigated by the must-fail/benign mutant corpus and cover obligations",
		"library code is represented by the contracts/models listed under coverage.trusted_base",
		"unsigned and small signed integer arithmetic is exact (mod 2^n); int/int64 arithmetic is mathematical",
		"each function is verified as a sequential activation: interference by other goroutines is out of scope unless a lock invariant or the task-loop permission carries the argument",
	}
	return base
}
