package main

// calls.go: call semantics. A callee with a contract is replaced by its
// contract (requires asserted, modifies havocked, ensures assumed). A repo
// callee without a contract is inlined (bounded depth) or havocked by its
// syntactic may-modify set. External code follows lib models / lib contracts /
// the external default.

import (
	"os"
	"fmt"
	"regexp"
	"go/token"
	"go/types"
	"strings"

	"golang.org/x/tools/go/ssa"
)

const maxInlineDepth = 4

// functions without a contract are inlined only when small; bigger ones must
// carry a contract or are havocked by their syntactic may-modify set.
const maxInlineInstrs = 80

func (fr *Frame) contractFor(fn *ssa.Function) *Contract {
	if fn == nil {
		return nil
	}
	return fr.vc.S.Contracts[funcKey(fn)]
}

func (fr *Frame) call(in ssa.Instruction, c *ssa.CallCommon, rt types.Type, pos token.Pos) Val {
	var args []Val
	for _, a := range c.Args {
		args = append(args, fr.get(a))
	}
	var fnv Val
	fnv = fr.get(c.Value)
	return fr.doCall(c, fnv, args, rt, pos)
}

func (fr *Frame) callDeferred(d deferred) {
	sig := d.call.Signature()
	var rt types.Type = sig.Results()
	if sig.Results().Len() == 1 {
		rt = sig.Results().At(0).Type()
	}
	fr.doCall(d.call, d.fnv, d.args, rt, d.pos)
}

func resultType(sig *types.Signature) types.Type {
	if sig.Results().Len() == 1 {
		return sig.Results().At(0).Type()
	}
	return sig.Results()
}

func (fr *Frame) doCall(c *ssa.CallCommon, fnv Val, args []Val, rt types.Type, pos token.Pos) Val {
	if rt == nil {
		rt = resultType(c.Signature())
	}
	// site clauses (before)
	fr.siteCall(c, pos, args, true, nil)
	var res Val
	switch {
	case c.IsInvoke():
		res = fr.invoke(c, fnv, args, rt, pos)
	default:
		if b, ok := c.Value.(*ssa.Builtin); ok {
			res = fr.builtin(b, c, args, rt, pos)
			break
		}
		var callee *ssa.Function
		var bindings []Val
		if f := c.StaticCallee(); f != nil {
			callee = f
			if fnv.Clo != nil {
				bindings = fnv.Clo.Bindings
			}
		} else if fnv.Clo != nil {
			callee = fnv.Clo.Fn.(*ssa.Function)
			bindings = fnv.Clo.Bindings
		}
		if callee == nil {
			if fr.vc.typeName(c.Value.Type()) == "context.CancelFunc" {
				// cancelling a context has no effect on modelled program state (the context's
				// ghost done flag is updated by an explicit site clause where a contract needs it)
				fr.vc.note("call of a context.CancelFunc: no effect on modelled state")
				res = fr.vc.zeroVal(rt)
				break
			}
			if u, ok := c.Value.(*ssa.UnOp); ok {
				if fa, ok := u.X.(*ssa.FieldAddr); ok {
					T := fa.X.Type().Underlying().(*types.Pointer).Elem()
					if k := fr.vc.typeName(T) + "." + fieldName(T, fa.Field); fr.vc.S.NoEffect[k] {
						fr.vc.note("call of the function stored in " + k + ": declared to have no effect on modelled state")
						res = fr.typed(fr.vc.freshVal("ret."+sanitize(k), rt))
						break
					}
				}
			}
			if p, ok := c.Value.(*ssa.Parameter); ok {
				if k := funcKey(fr.fn) + "." + p.Name(); fr.vc.S.NoEffect[k] {
					fr.vc.note("call of the function parameter " + k + ": declared to have no effect on modelled state")
					res = fr.typed(fr.vc.freshVal("ret."+sanitize(k), rt))
					break
				}
			}
			res = fr.unknownCall("dynamic call of func value", args, rt, true)
			break
		}
		res = fr.staticCall(callee, bindings, args, rt, pos)
	}
	fr.siteCall(c, pos, args, false, &res)
	return res
}

func (fr *Frame) staticCall(callee *ssa.Function, bindings []Val, args []Val, rt types.Type, pos token.Pos) Val {
	vc := fr.vc
	if v, ok := fr.libModel(callee, args, rt, pos); ok {
		return v
	}
	if ct := fr.contractFor(callee); ct != nil && !(callee.Parent() != nil && len(callee.FreeVars) > 0) {
		// (a closure's contract speaks about its captured variables and is meant for verifying the
		// closure as a task entry; at a call site with known bindings the body is executed inline)
		names := paramNames(callee)
		if len(ct.Params) > 0 {
			names = ct.Params
		}
		return fr.applyContract(ct, callee.Signature, names, args, rt, pos, funcKey(callee))
	}
	if vc.P.isRepoFunc(callee) && len(callee.Blocks) > 0 {
		if fr.depth < maxInlineDepth && !fr.onStack(callee) && fr.inlineSize(callee) {
			return fr.inline(callee, bindings, args, rt)
		}
		if ct := fr.contractFor(callee); ct != nil && len(bindings) == len(callee.FreeVars) && allPointerCaptures(callee) {
			// a closure with its own contract that is too large to run inline: its contract is
			// applied, the captured (effectively final) variables denoting their current contents
			names := paramNames(callee)
			if len(ct.Params) > 0 {
				names = ct.Params
			}
			all := append([]Val{}, args...)
			refs := map[string]refBinding{}
			for i, fv := range callee.FreeVars {
				pt, ok := fv.Type().Underlying().(*types.Pointer)
				if !ok {
					continue
				}
				if !finalCapture(callee, i) {
					// a captured variable the closure (or somebody else) assigns: the name denotes the cell, read in
					// the pre-state by old(...) and in the post-state otherwise; the call havocs the cell
					refs[fv.Name()] = refBinding{ptr: bindings[i], elem: pt.Elem()}
					continue
				}
				lv := fr.loadPtr(fr.cur.heap, bindings[i], pt.Elem())
				lv.Typ = pt.Elem()
				for len(names) < len(all) {
					names = append(names, "_")
				}
				names = append(names, fv.Name())
				all = append(all, lv)
			}
			vc.note("call of the closure " + funcKey(callee) + ": its own contract applied (captured variables bound to their current values)")
			fr.callRefs = refs
			r := fr.applyContract(ct, callee.Signature, names, all, rt, pos, funcKey(callee))
			fr.callRefs = nil
			return r
		}
		vc.note("call of " + funcKey(callee) + " (no contract, not inlined): havoc of its syntactic may-modify set")
		ms := vc.modSet(callee, map[*ssa.Function]bool{})
		fr.cur.heap = fr.havocKeep(fr.cur.heap, ms, nil)
		fr.bumpNow()
		return fr.typed(vc.freshVal("ret."+callee.Name(), rt))
	}
	// external function without model or contract
	return fr.externalCall(funcKey(callee), callee.Signature, args, rt)
}

func paramNames(fn *ssa.Function) []string {
	var out []string
	for _, p := range fn.Params {
		out = append(out, p.Name())
	}
	return out
}

func (fr *Frame) onStack(fn *ssa.Function) bool {
	for f := fr; f != nil; f = f.parent {
		if f.fn == fn {
			return true
		}
	}
	return false
}

func (fr *Frame) inlineSize(fn *ssa.Function) bool {
	n := 0
	for _, b := range fn.Blocks {
		n += len(b.Instrs)
	}
	return n <= maxInlineInstrs
}

func (fr *Frame) bumpNow() {
	vc := fr.vc
	n := vc.fresh("now", "Int")
	vc.assert("(>= " + n + " " + fr.cur.now + ")")
	fr.cur.now = n
}

func (fr *Frame) inline(callee *ssa.Function, bindings []Val, args []Val, rt types.Type) Val {
	vc := fr.vc
	sub := vc.newFrame(callee, fr)
	sub.freeVars = bindings
	sub.params = args
	for i, p := range callee.Params {
		if i < len(args) {
			a := args[i]
			a.Typ = p.Type()
			sub.vals[p] = a
		}
	}
	startHeap := fr.cur.heap
	if oc := sub.ownContract(); oc != nil {
		// the closure's ghost variables start at their declared initial values
		sub.entry = &State{heap: startHeap, now: fr.cur.now}
		ienv := sub.envAt(sub.entry, startHeap, "ghost variables of "+funcKey(callee))
		for _, gv := range oc.GhostVars {
			fam := "GV_" + funcKey(callee) + "." + gv.Name
			vc.family(fam, specSort(gv.GType))
			if gv.Init != nil {
				startHeap = vc.heapSet(startHeap, fam, ienv.eval(gv.Init).T())
			}
		}
	}
	sub.run(&State{heap: startHeap, now: fr.cur.now}, fr.curR)
	if len(sub.rets) == 0 {
		// never returns (panics / infinite loop)
		vc.assume(fr.curR, "false")
		return vc.freshVal("ret."+callee.Name(), rt)
	}
	var conds []string
	var hs []*Heap
	for _, r := range sub.rets {
		conds = append(conds, r.cond)
		hs = append(hs, r.heap)
	}
	fr.cur.heap = vc.heapMerge(conds, hs)
	now := sub.rets[len(sub.rets)-1].now
	for i := len(sub.rets) - 2; i >= 0; i-- {
		now = ite(conds[i], sub.rets[i].now, now)
	}
	fr.cur.now = vc.define("now", "Int", now)
	// paths that do not return (panic) are cut: after the call, some return happened
	vc.assume(fr.curR, or(conds...))
	// merge results
	n := len(vc.shape(rt))
	out := Val{Typ: rt}
	if callee.Signature.Results().Len() == 0 {
		return Val{Typ: rt}
	}
	for l := 0; l < n; l++ {
		flat := func(r retInfo) string {
			k := l
			for _, v := range r.vals {
				if k < len(v.L) {
					return v.L[k]
				}
				k -= len(v.L)
			}
			return "0"
		}
		t := flat(sub.rets[len(sub.rets)-1])
		for i := len(sub.rets) - 2; i >= 0; i-- {
			t = ite(conds[i], flat(sub.rets[i]), t)
		}
		out.L = append(out.L, t)
	}
	// closure results (single return of a closure value)
	if len(sub.rets) == 1 && len(sub.rets[0].vals) >= 1 {
		out.Clo = sub.rets[0].vals[0].Clo
		if len(sub.rets[0].vals) == 1 {
			out.Loc = sub.rets[0].vals[0].Loc
		}
	}
	return fr.nameVal2(fmt.Sprintf("f%d.ret", sub.id), out)
}

// unknownCall: result fresh; heap havocked entirely if mayWrite.
func (fr *Frame) unknownCall(why string, args []Val, rt types.Type, mayWrite bool) Val {
	vc := fr.vc
	vc.note(why + " in " + fr.top.fn.String() + ": full havoc")
	if mayWrite {
		fr.cur.heap = fr.havocKeep(fr.cur.heap, map[string]bool{"*": true}, nil)
	}
	fr.bumpNow()
	return fr.typed(vc.freshVal("ret", rt))
}

// externalCall: default for library code without a model/contract: the result is
// arbitrary; memory reachable one level from pointer/slice arguments is
// havocked; a func-typed argument may be called, so everything is havocked.
var nondetExternals = map[string]bool{"time.Now": true, "time.Since": true, "time.Until": true}

// valueOnly: every argument is a plain value (no pointer, slice, map, chan, func or interface).
func (vc *VC) valueOnly(args []Val) bool {
	for _, a := range args {
		if a.Typ == nil {
			continue
		}
		switch a.Typ.Underlying().(type) {
		case *types.Pointer, *types.Slice, *types.Map, *types.Chan, *types.Signature, *types.Interface:
			return false
		case *types.Struct:
			if vc.flatStruct(a.Typ) {
				for _, l := range vc.shape(a.Typ) {
					if l.GoT == nil {
						return false
					}
					switch l.GoT.Underlying().(type) {
					case *types.Pointer, *types.Map, *types.Chan, *types.Signature:
						return false
					}
				}
			}
		}
	}
	return true
}

func (fr *Frame) externalCall(name string, sig *types.Signature, args []Val, rt types.Type) Val {
	vc := fr.vc
	if vc.valueOnly(args) && !nondetExternals[name] && !strings.HasPrefix(name, "rand.") && !strings.HasPrefix(name, "randutil.") {
		// a library function of plain values: a deterministic function of its arguments without side effects on modelled state
		vc.note("external call " + name + ": pure function of its (value-only) arguments")
		var as, srt []string
		for _, a := range args {
			for i, l := range a.L {
				as = append(as, l)
				srt = append(srt, vc.sortOf(a, i))
			}
		}
		out := Val{Typ: rt}
		for _, l := range vc.shape(rt) {
			if len(as) == 0 {
				out.L = append(out.L, vc.declConst("uf_"+name+l.Suffix, l.Sort))
				continue
			}
			f := vc.declFun("uf_"+name+l.Suffix, srt, l.Sort)
			out.L = append(out.L, "("+f+" "+joinSp(as)+")")
		}
		out = fr.nameVal2("ret."+sanitize(name), out)
		return fr.typed(out)
	}
	vc.note("external call " + name + ": default effect (args' pointees havocked, result arbitrary)")
	set := map[string]bool{}
	h := fr.cur.heap
	for _, a := range args {
		if a.Typ == nil {
			continue
		}
		switch u := a.Typ.Underlying().(type) {
		case *types.Signature:
			set["*"] = true
		case *types.Slice:
			if sh := vc.shape(u.Elem()); !vc.flatStruct(u.Elem()) {
				// only the backing array of this slice
				for _, l := range sh {
					fam := "E_" + vc.typeName(u.Elem()) + l.Suffix
					vc.family(fam, famSortFor(l.Sort, 2))
					inner := vc.fresh("hv.arr", "(Array Int "+l.Sort+")")
					h = vc.heapSet(h, fam, vc.define(fam, vc.famSort[fam], "(store "+vc.lookup(h, fam)+" "+a.L[0]+" "+inner+")"))
				}
			} else {
				set["H_"+vc.typeName(u.Elem())+".*"] = true
			}
		case *types.Pointer:
			if a.Loc != nil {
				nv := vc.freshVal("hv", a.Loc.Typ)
				vc.assume(fr.curR, vc.typeFacts(nv))
				h = vc.storeLoc(h, a.Loc, nv)
			} else if vc.flatStruct(u.Elem()) {
				vc.structFamilies(u.Elem(), set, map[string]bool{})
			} else {
				set["E_"+vc.typeName(u.Elem())+"*"] = true
			}
		case *types.Interface:
			// a bare interface arg may carry a pointer: ignored (listed)
		}
	}
	fr.cur.heap = h
	fr.cur.heap = fr.havocKeep(fr.cur.heap, set, nil)
	fr.bumpNow()
	return fr.typed(vc.freshVal("ret."+sanitize(name), rt))
}

// ---------------------------------------------------------------------------
// interface method calls

func (fr *Frame) invoke(c *ssa.CallCommon, recv Val, args []Val, rt types.Type, pos token.Pos) Val {
	vc := fr.vc
	it := c.Value.Type()
	iname := vc.typeName(it)
	key := "iface " + iname + "." + c.Method.Name()
	all := append([]Val{recv}, args...)
	if ct := vc.S.Contracts[key]; ct != nil {
		names := ct.Params
		if len(names) == 0 {
			names = []string{"this"}
			sig := c.Method.Type().(*types.Signature)
			for i := 0; i < sig.Params().Len(); i++ {
				n := sig.Params().At(i).Name()
				if n == "" || n == "_" {
					n = fmt.Sprintf("a%d", i)
				}
				names = append(names, n)
			}
		}
		return fr.applyContract(ct, c.Method.Type().(*types.Signature), names, all, rt, pos, key)
	}
	if n, ok := types.Unalias(it).(*types.Named); ok && n.Obj().Pkg() != nil && vc.P.RepoPkgs[n.Obj().Pkg().Path()] {
		if impls := vc.implementors(it); len(impls) > 0 && len(impls) <= 8 && fr.depth < maxInlineDepth {
			return fr.invokeDispatch(c, impls, recv, args, rt, pos)
		}
		return fr.unknownCall("invoke "+iname+"."+c.Method.Name()+" (no iface contract)", all, rt, true)
	}
	return fr.externalCall(iname+"."+c.Method.Name(), c.Method.Type().(*types.Signature), all, rt)
}

// ---------------------------------------------------------------------------
// contracts at call sites

func (fr *Frame) applyContract(ct *Contract, sig *types.Signature, names []string, args []Val, rt types.Type, pos token.Pos, calleeKey string) Val {
	vc := fr.vc
	if ct.Trusted {
		vc.note("assumed contract used: " + calleeKey)
	}
	env := &Env{vc: vc, vars: map[string]Val{}, heap: fr.cur.heap, old: fr.cur.heap, now: fr.cur.now, pkg: fr.contractPkg(ct), what: "contract of " + calleeKey + " at " + fr.pos(pos).String(), reach: fr.curR}
	env.refs, env.refFr = fr.callRefs, fr
	for i, n := range names {
		if i < len(args) {
			env.vars[n] = args[i]
		}
	}
	line := fr.pos(pos).Line
	for i, rq := range ct.Requires {
		lbl := rq.Label
		if lbl == "" {
			lbl = fmt.Sprint(i + 1)
		}
		g := env.evalGoal(rq.E).T()
		short := calleeKey[strings.LastIndex(calleeKey, ".")+1:]
		// a precondition tagged for property P is checked at this call only if the calling function is
		// claimed for P as a whole (function-level props); a function that merely carries a clause tagged
		// P stays an un-claimed caller of that precondition, as it was before the clause was added
		props := rq.Props
		if len(props) > 0 && fr.top.contract != nil {
			var keep []string
			for _, p := range props {
				if hasProp(fr.top.contract.Props, p) {
					keep = append(keep, p)
				}
			}
			if len(keep) == 0 {
				keep = []string{"-"}
			}
			props = keep
		}
		fr.oblige("pre", fmt.Sprintf("%s.%s@L%d", short, lbl, line), g, props, pos, "requires "+rq.Src+" of "+calleeKey)
		vc.assume(fr.curR, g)
	}
	pre := fr.cur.heap
	if !ct.Pure {
		// time first: objects handed back by the callee may have been allocated during the call
		fr.bumpNow()
		fr.cur.heap = fr.havocModifies(ct, env, calleeKey)
		for n, rb := range fr.callRefs {
			fr.cur.heap = fr.storePtr(fr.cur.heap, rb.ptr, rb.elem, fr.typed(vc.freshVal("cap."+n, rb.elem)))
		}
	}
	res := vc.freshVal("ret."+sanitize(calleeKey), rt)
	if ct.Pure {
		res = vc.pureResult(calleeKey, pre, args, rt)
	}
	fr.typed(res)
	post := &Env{vc: vc, vars: map[string]Val{}, heap: fr.cur.heap, old: pre, now: fr.cur.now, pkg: env.pkg, what: env.what, oldNowT: env.now, reach: fr.curR}
	for k, v := range env.vars {
		post.vars[k] = v
	}
	post.refs, post.refFr = env.refs, fr
	bindResults(vc, post, sig, ct.Results, res)
	var frames []frameReq
	post.frames = &frames
	for _, en := range ct.Ensures {
		if mentionsGhostVar(ct, en.Src) {
			continue // stated over the callee's own ghost variables: internal to its proof
		}
		vc.assume(fr.curR, post.evalAssume(en.E).T())
	}
	for _, fq := range frames {
		n := vc.newHeap(hFrame)
		n.parent = fr.cur.heap
		n.pre = pre
		n.cond = fq.cond
		n.set = fq.except
		n.oldNow = env.now
		fr.cur.heap = n
	}
	for _, en := range ct.Defines {
		vc.note("ghost definition assumed at call sites of " + calleeKey + ": " + en.Src)
		vc.assume(fr.curR, post.evalAssume(en.E).T())
	}
	return res
}

func bindResults(vc *VC, env *Env, sig *types.Signature, names []string, res Val) {
	rs := sig.Results()
	off := 0
	for i := 0; i < rs.Len(); i++ {
		n := vc.nleaves(rs.At(i).Type())
		v := Val{Typ: rs.At(i).Type(), L: res.L[off : off+n]}
		off += n
		if i == 0 {
			env.vars["result"] = v
		}
		env.vars[fmt.Sprintf("result%d", i)] = v
		if nm := rs.At(i).Name(); nm != "" && nm != "_" {
			if _, taken := env.vars[nm]; !taken {
				env.vars[nm] = v
			}
		}
		if i < len(names) {
			env.vars[names[i]] = v
		}
		if vc.typeName(rs.At(i).Type()) == "error" {
			if _, taken := env.vars["err"]; !taken || i == rs.Len()-1 {
				if nm := rs.At(i).Name(); nm == "" || nm == "_" || nm == "err" {
					env.vars["err"] = v
				}
			}
		}
	}
}

func (fr *Frame) contractPkg(ct *Contract) *types.Package {
	// package of the contract file = first path element of the key
	k := ct.Key
	k = strings.TrimPrefix(k, "iface ")
	if i := strings.Index(k, "."); i > 0 {
		if p := fr.vc.P.PkgByName[k[:i]]; p != nil {
			return p
		}
	}
	if fr.fn.Pkg != nil {
		return fr.fn.Pkg.Pkg
	}
	return nil
}

// havocModifies produces the post-call heap according to the modifies clause.
func (fr *Frame) havocModifies(ct *Contract, env *Env, calleeKey string) *Heap {
	vc := fr.vc
	h := fr.cur.heap
	if !ct.HasMod {
		set := map[string]bool{}
		vc.modSetContractT(ct, vc.P.Funcs[calleeKey], set, nil)
		return fr.havocKeep(h, set, nil)
	}
	set := map[string]bool{}
	for _, m := range ct.Modifies {
		locs, fams := env.modTargets(m)
		for _, f := range fams {
			set[f] = true
		}
		for _, loc := range locs {
			if loc.Typ == nil {
				// whole backing array of one slice
				cur := vc.lookup(h, loc.Fam)
				inner := vc.fresh("hv.arr", vc.famSort[loc.Fam][len("(Array Int ") : len(vc.famSort[loc.Fam])-1])
				h = vc.heapSet(h, loc.Fam, vc.define(loc.Fam, vc.famSort[loc.Fam], "(store "+cur+" "+loc.Idx[0]+" "+inner+")"))
				continue
			}
			nv := vc.freshVal("hv", loc.Typ)
			fr.typed(nv)
			h = vc.storeLoc(h, loc, nv)
		}
	}
	return fr.havocKeep(h, set, nil)
}

// keepLocals records on a havoc node the maps made by this activation (and its inlining
// ancestors) that never escape: they are used only through m[k], m[k]=v, delete, len and range
// on the SSA value itself, so no callee can reach them, and a loop leaves them alone unless
// its own blocks update them.
// havocKeep: heapHavoc plus the keep-sets of keepLocals on the node created for this havoc
// (never on an existing node: an empty set returns the heap unchanged).
func (fr *Frame) havocKeep(h *Heap, set map[string]bool, li *loopInfo) *Heap {
	n := fr.vc.heapHavoc(h, set)
	if n == h {
		return h
	}
	return fr.keepLocals(n, li)
}

func (fr *Frame) keepLocals(h *Heap, li *loopInfo) *Heap {
	if h.kind != hHavocSet || h.keep != nil || h.keepE != nil || h.keepH != nil {
		return h
	}
	for f := fr; f != nil; f = f.parent {
		for _, al := range f.stackAllocs() {
			v, ok := f.vals[al]
			if !ok || len(v.L) == 0 {
				continue
			}
			if f == fr && li != nil && touchedIn(al, li) {
				continue
			}
			h.keepH = append(h.keepH, v.L[0])
		}
		for i := range f.fn.FreeVars {
			if i < len(f.freeVars) && len(f.freeVars[i].L) > 0 && finalCapture(f.fn, i) {
				h.keepE = append(h.keepE, f.freeVars[i].L[0])
			}
		}
		for _, al := range f.capturedFinalAllocs() {
			v, ok := f.vals[al]
			if !ok || len(v.L) == 0 {
				continue
			}
			if f == fr && li != nil && storedIn(al, li) {
				continue
			}
			h.keepE = append(h.keepE, v.L[0])
		}
	}
	for f := fr; f != nil; f = f.parent {
		for _, m := range f.localMaps() {
			v, ok := f.vals[m]
			if !ok || len(v.L) == 0 {
				continue
			}
			if f == fr && li != nil && updatedIn(m, li) {
				continue
			}
			if os.Getenv("GOVC_DEBUG_KEEP") != "" {
				fmt.Fprintf(os.Stderr, "KEEP heap@%d map %s in %s loop=%v\n", h.id, v.L[0], f.fn.Name(), li != nil)
			}
			h.keep = append(h.keep, v.L[0])
		}
	}
	return h
}

var stackAllocMemo = map[*ssa.Function][]*ssa.Alloc{}

// stackAllocs: locals that go/ssa's escape analysis keeps on the stack (Alloc with Heap == false):
// their address never leaves the function, so only this function's own instructions write them.
func (fr *Frame) stackAllocs() []*ssa.Alloc {
	if r, ok := stackAllocMemo[fr.fn]; ok {
		return r
	}
	var out []*ssa.Alloc
	for _, b := range fr.fn.Blocks {
		for _, in := range b.Instrs {
			if al, ok := in.(*ssa.Alloc); ok && !al.Heap {
				out = append(out, al)
			}
		}
	}
	stackAllocMemo[fr.fn] = out
	return out
}

// touchedIn: some instruction of the loop refers to the alloc (directly or through a field /
// element address) other than by loading from it.
func touchedIn(al *ssa.Alloc, li *loopInfo) bool {
	if li.blocks[al.Block()] {
		return true
	}
	var visit func(v ssa.Value, depth int) bool
	visit = func(v ssa.Value, depth int) bool {
		if v.Referrers() == nil || depth > 4 {
			return depth > 4
		}
		for _, ref := range *v.Referrers() {
			switch r := ref.(type) {
			case *ssa.DebugRef:
			case *ssa.UnOp:
				// load
			case *ssa.FieldAddr:
				if visit(r, depth+1) {
					return true
				}
			case *ssa.IndexAddr:
				if visit(r, depth+1) {
					return true
				}
			default:
				if li.blocks[ref.Block()] {
					return true
				}
			}
		}
		return false
	}
	return visit(al, 0)
}

var capturedAllocMemo = map[*ssa.Function][]*ssa.Alloc{}

// capturedFinalAllocs: local variables of this function that live in a heap cell only because a
// closure captures them, are assigned at most once here and are only read by the closures.
func (fr *Frame) capturedFinalAllocs() []*ssa.Alloc {
	if r, ok := capturedAllocMemo[fr.fn]; ok {
		return r
	}
	var out []*ssa.Alloc
	for _, b := range fr.fn.Blocks {
		for _, in := range b.Instrs {
			al, ok := in.(*ssa.Alloc)
			if !ok || !al.Heap || al.Referrers() == nil {
				continue
			}
			captured := false
			for _, ref := range *al.Referrers() {
				if _, isMC := ref.(*ssa.MakeClosure); isMC {
					captured = true
				}
			}
			if captured && cellWrittenOnce(al, true) {
				out = append(out, al)
			}
		}
	}
	capturedAllocMemo[fr.fn] = out
	return out
}

func storedIn(al *ssa.Alloc, li *loopInfo) bool {
	for _, ref := range *al.Referrers() {
		if st, ok := ref.(*ssa.Store); ok && li.blocks[st.Block()] {
			return true
		}
	}
	return li.blocks[al.Block()]
}

// refBinding: a captured variable bound by reference at a call site of a closure's contract.
type refBinding struct {
	ptr  Val
	elem types.Type
}

func allPointerCaptures(fn *ssa.Function) bool {
	for _, fv := range fn.FreeVars {
		if _, ok := fv.Type().Underlying().(*types.Pointer); !ok {
			return false
		}
	}
	return true
}

func allFinalCaptures(fn *ssa.Function) bool {
	for i := range fn.FreeVars {
		if !finalCapture(fn, i) {
			return false
		}
	}
	return true
}

var finalCaptureMemo = map[*ssa.FreeVar]bool{}

// finalCapture: free variable i of closure fn is a cell that is written exactly once, by the
// function that declares the variable (before any closure exists it is only initialised), and
// only read by every closure that captures it. No callee can then change it.
func finalCapture(fn *ssa.Function, i int) bool {
	fv := fn.FreeVars[i]
	if r, ok := finalCaptureMemo[fv]; ok {
		return r
	}
	finalCaptureMemo[fv] = false
	if _, isPtr := fv.Type().Underlying().(*types.Pointer); !isPtr {
		return false
	}
	parent := fn.Parent()
	if parent == nil {
		return false
	}
	// the value bound to this free variable at every MakeClosure of fn in the parent
	var cell ssa.Value
	for _, b := range parent.Blocks {
		for _, in := range b.Instrs {
			if mc, ok := in.(*ssa.MakeClosure); ok && mc.Fn == ssa.Value(fn) && i < len(mc.Bindings) {
				if cell != nil && cell != mc.Bindings[i] {
					return false
				}
				cell = mc.Bindings[i]
			}
		}
	}
	if cell == nil {
		return false
	}
	ok := cellWrittenOnce(cell, true)
	finalCaptureMemo[fv] = ok
	return ok
}

// cellWrittenOnce: cell is an Alloc with (at most, when allowInit) one Store in its declaring
// function, otherwise only loads, debug refs and captures by closures that themselves only read it;
// or it is the parent's own free variable satisfying the same.
func cellWrittenOnce(cell ssa.Value, allowInit bool) bool {
	switch c := cell.(type) {
	case *ssa.Alloc:
		stores := 0
		for _, ref := range *c.Referrers() {
			switch r := ref.(type) {
			case *ssa.DebugRef:
			case *ssa.UnOp:
				if r.Op != token.MUL {
					return false
				}
			case *ssa.Store:
				if r.Addr != ssa.Value(c) || r.Val == ssa.Value(c) {
					return false
				}
				stores++
			case *ssa.MakeClosure:
				f := r.Fn.(*ssa.Function)
				for k, bnd := range r.Bindings {
					if bnd == ssa.Value(c) && !onlyRead(f.FreeVars[k]) {
						return false
					}
				}
			default:
				return false
			}
		}
		return stores <= 1 && (allowInit || stores == 0)
	case *ssa.FreeVar:
		if !onlyRead(c) {
			return false
		}
		pf := c.Parent()
		for k, fv := range pf.FreeVars {
			if fv == c {
				return finalCapture(pf, k)
			}
		}
	}
	return false
}

func onlyRead(fv *ssa.FreeVar) bool {
	for _, ref := range *fv.Referrers() {
		switch r := ref.(type) {
		case *ssa.DebugRef:
		case *ssa.UnOp:
			if r.Op != token.MUL {
				return false
			}
		case *ssa.MakeClosure:
			f := r.Fn.(*ssa.Function)
			for k, bnd := range r.Bindings {
				if bnd == ssa.Value(fv) && !onlyRead(f.FreeVars[k]) {
					return false
				}
			}
		default:
			return false
		}
	}
	return true
}

func updatedIn(m ssa.Value, li *loopInfo) bool {
	for _, ref := range *m.Referrers() {
		if !li.blocks[ref.Block()] {
			continue
		}
		switch r := ref.(type) {
		case *ssa.MapUpdate:
			return true
		case ssa.CallInstruction:
			if b, ok := r.Common().Value.(*ssa.Builtin); ok && b.Name() == "delete" {
				return true
			}
		}
	}
	return false
}

var localMapsMemo = map[*ssa.Function][]ssa.Value{}

func (fr *Frame) localMaps() []ssa.Value {
	if ms, ok := localMapsMemo[fr.fn]; ok {
		return ms
	}
	var out []ssa.Value
	for _, b := range fr.fn.Blocks {
		for _, in := range b.Instrs {
			mm, ok := in.(*ssa.MakeMap)
			if !ok || mm.Referrers() == nil {
				continue
			}
			local := true
			for _, ref := range *mm.Referrers() {
				switch r := ref.(type) {
				case *ssa.DebugRef:
				case *ssa.MapUpdate:
					if r.Map != ssa.Value(mm) || r.Key == ssa.Value(mm) || r.Value == ssa.Value(mm) {
						local = false
					}
				case *ssa.Lookup:
					if r.X != ssa.Value(mm) || r.Index == ssa.Value(mm) {
						local = false
					}
				case *ssa.Range:
				case *ssa.Call:
					bi, isB := r.Call.Value.(*ssa.Builtin)
					if !isB || (bi.Name() != "len" && bi.Name() != "delete") || r.Call.Args[0] != ssa.Value(mm) {
						local = false
					}
					for _, a := range r.Call.Args[1:] {
						if a == ssa.Value(mm) {
							local = false
						}
					}
				default:
					local = false
				}
			}
			if local {
				out = append(out, mm)
			}
		}
	}
	localMapsMemo[fr.fn] = out
	return out
}

// modTargets resolves one modifies entry to precise locations and/or whole families.
//   *                    everything
//   fam:NAME             a family (prefix match with trailing *)
//   T.f                  field f of every object of type T (e.g. ice.Agent.checklist)
//   x.f                  field f of object x
//   x.*                  every field of object x  (approximated: every field family of x's type)
//   s[*]                 elements of slice s (approximated: the element family)
//   m[*]                 entries of map m (the map families)
func (e *Env) modTargets(m string) (locs []*Loc, fams []string) {
	vc := e.vc
	m = strings.TrimSpace(m)
	if m == "*" {
		return nil, []string{"*"}
	}
	if strings.HasPrefix(m, "fam:") {
		return nil, []string{strings.TrimPrefix(m, "fam:")}
	}
	if strings.HasPrefix(m, "*") && len(m) > 1 {
		se, err := parseSExpr(m[1:])
		if err != nil {
			e.errf("bad modifies %q", m)
			return
		}
		v := e.eval(se)
		if v.Typ != nil {
			if pt, ok := v.Typ.Underlying().(*types.Pointer); ok {
				if v.Loc != nil {
					return []*Loc{v.Loc}, nil
				}
				if vc.flatStruct(pt.Elem()) {
					return nil, []string{"H_" + vc.typeName(pt.Elem()) + ".*"}
				}
				return []*Loc{{Fam: "E_" + vc.typeName(pt.Elem()), Idx: []string{v.L[0], "0"}, Typ: pt.Elem()}}, nil
			}
		}
		e.errf("modifies %q: not a pointer", m)
		return
	}
	if strings.HasSuffix(m, "[*]") {
		se, err := parseSExpr(strings.TrimSuffix(m, "[*]"))
		if err != nil {
			e.errf("bad modifies %q", m)
			return
		}
		v := e.eval(se)
		if v.Typ != nil {
			switch u := v.Typ.Underlying().(type) {
			case *types.Slice:
				if vc.flatStruct(u.Elem()) {
					return nil, []string{"H_" + vc.typeName(u.Elem()) + ".*"}
				}
				if sh := vc.shape(u.Elem()); len(sh) == 1 {
					// precise: only the backing array of this slice
					fam := "E_" + vc.typeName(u.Elem())
					vc.family(fam, famSortFor(sh[0].Sort, 2))
					return []*Loc{{Fam: fam, Idx: []string{v.L[0]}, Typ: nil}}, nil
				}
				return nil, []string{"E_" + vc.typeName(u.Elem()) + "*"}
			case *types.Map:
				return nil, []string{"M_" + vc.typeName(u.Key()) + "_" + vc.typeName(u.Elem()) + ".*"}
			case *types.Pointer:
				if at, ok := u.Elem().Underlying().(*types.Array); ok {
					return nil, []string{"E_" + vc.typeName(at.Elem()) + "*"}
				}
			}
		}
		e.errf("modifies %q: not a slice/map", m)
		return
	}
	i := strings.LastIndex(m, ".")
	if i < 0 {
		e.errf("bad modifies entry %q", m)
		return
	}
	head, fld := m[:i], m[i+1:]
	// type-level: pkg.Type.field
	if T := e.resolveType(head); T != nil {
		if fld == "*" {
			return nil, []string{"H_" + vc.typeName(T) + ".*"}
		}
		return nil, []string{"H_" + vc.typeName(T) + "." + fld + "*"}
	}
	se, err := parseSExpr(head)
	if err != nil {
		e.errf("bad modifies %q", m)
		return
	}
	v := e.eval(se)
	if v.Typ == nil {
		e.errf("modifies %q: untyped object", m)
		return
	}
	if _, isI := v.Typ.Underlying().(*types.Interface); isI {
		if gf, ok := vc.S.Ghosts["iface."+fld]; ok {
			fam := "H_iface." + fld
			vc.family(fam, "(Array Int "+specSort(gf.GType)+")")
			return []*Loc{{Fam: fam, Idx: []string{v.L[1]}, Typ: nil}}, nil
		}
		if gf, ok := vc.S.Ghosts[vc.typeName(v.Typ)+"."+fld]; ok {
			fam := "H_" + vc.typeName(v.Typ) + "." + fld
			vc.family(fam, "(Array Int "+specSort(gf.GType)+")")
			return []*Loc{{Fam: fam, Idx: []string{v.L[1]}, Typ: nil}}, nil
		}
	}
	pt, ok := v.Typ.Underlying().(*types.Pointer)
	if !ok {
		e.errf("modifies %q: %s is not a pointer", m, head)
		return
	}
	T := pt.Elem()
	if fld == "*" {
		return nil, []string{"H_" + vc.typeName(T) + ".*"}
	}
	if _, isGhost := vc.S.Ghosts[vc.typeName(T)+"."+fld]; isGhost {
		gf := vc.S.Ghosts[vc.typeName(T)+"."+fld]
		fam := "H_" + vc.typeName(T) + "." + fld
		vc.family(fam, "(Array Int "+specSort(gf.GType)+")")
		return []*Loc{{Fam: fam, Idx: []string{v.L[0]}, Typ: nil}}, nil
	}
	obj, path, _ := types.LookupFieldOrMethod(T, true, e.pkgOf(T), fld)
	f, ok := obj.(*types.Var)
	if !ok || len(path) != 1 {
		// promoted or missing: family-level havoc
		if ok {
			return nil, []string{"H_*." + fld + "*"}
		}
		e.errf("modifies %q: no such field", m)
		return
	}
	ft := f.Type()
	if vc.flatStruct(ft) {
		return nil, []string{"H_" + vc.typeName(ft) + ".*"}
	}
	if _, isArr := ft.Underlying().(*types.Array); isArr {
		return nil, []string{"E_*"}
	}
	return []*Loc{{Fam: vc.fieldFam(T, fld), Idx: []string{v.L[0]}, Typ: ft}}, nil
}

// ---------------------------------------------------------------------------
// syntactic may-modify sets

var modSetMemo = map[*ssa.Function]map[string]bool{}
var modSetBusy = map[*ssa.Function]bool{}

func (vc *VC) modSet(fn *ssa.Function, onpath map[*ssa.Function]bool) map[string]bool {
	if m, ok := modSetMemo[fn]; ok {
		return m
	}
	if onpath[fn] || modSetBusy[fn] {
		return map[string]bool{}
	}
	onpath[fn] = true
	modSetBusy[fn] = true
	defer delete(onpath, fn)
	defer delete(modSetBusy, fn)
	set := map[string]bool{}
	for _, b := range fn.Blocks {
		vc.modSetBlock(fn, b, set, onpath)
	}
	for _, an := range fn.AnonFuncs {
		_ = an // closures are only counted when called/passed
	}
	modSetMemo[fn] = set
	return set
}

func (vc *VC) addrFamilies(addr ssa.Value, set map[string]bool) {
	switch a := addr.(type) {
	case *ssa.FieldAddr:
		S := a.X.Type().Underlying().(*types.Pointer).Elem()
		ft := S.Underlying().(*types.Struct).Field(a.Field).Type()
		if vc.flatStruct(ft) {
			set["H_"+vc.typeName(ft)+".*"] = true
		} else if at, ok := ft.Underlying().(*types.Array); ok {
			set["E_"+vc.typeName(at.Elem())+"*"] = true
		} else {
			set["H_"+vc.typeName(S)+"."+S.Underlying().(*types.Struct).Field(a.Field).Name()+"*"] = true
		}
	case *ssa.IndexAddr:
		var et types.Type
		switch t := a.X.Type().Underlying().(type) {
		case *types.Slice:
			et = t.Elem()
		case *types.Pointer:
			et = t.Elem().Underlying().(*types.Array).Elem()
		}
		if et != nil {
			if vc.flatStruct(et) {
				set["H_"+vc.typeName(et)+".*"] = true
			} else {
				set["E_"+vc.typeName(et)+"*"] = true
			}
		}
	case *ssa.Global:
		set["G_"+a.Pkg.Pkg.Name()+"."+a.Name()+"*"] = true
	default:
		T := addr.Type().Underlying().(*types.Pointer).Elem()
		if vc.flatStruct(T) {
			set["H_"+vc.typeName(T)+".*"] = true
		} else if at, ok := T.Underlying().(*types.Array); ok {
			set["E_"+vc.typeName(at.Elem())+"*"] = true
		} else {
			set["E_"+vc.typeName(T)+"*"] = true
		}
	}
}

func (vc *VC) modSetBlock(fn *ssa.Function, b *ssa.BasicBlock, set map[string]bool, onpath map[*ssa.Function]bool) {
	for _, in := range b.Instrs {
		switch x := in.(type) {
		case *ssa.Store:
			vc.addrFamilies(x.Addr, set)
		case *ssa.MapUpdate:
			mt := x.Map.Type().Underlying().(*types.Map)
			set["M_"+vc.typeName(mt.Key())+"_"+vc.typeName(mt.Elem())+".*"] = true
		case *ssa.MakeChan, *ssa.MakeMap, *ssa.MakeSlice, *ssa.Alloc:
			// fresh memory: initialisation writes touch only fresh refs; but they do change family terms
			switch y := in.(type) {
			case *ssa.MakeChan:
				set["Chan.closed"] = true
			case *ssa.MakeMap:
				mt := y.Type().Underlying().(*types.Map)
				set["M_"+vc.typeName(mt.Key())+"_"+vc.typeName(mt.Elem())+".*"] = true
			case *ssa.MakeSlice:
				et := y.Type().Underlying().(*types.Slice).Elem()
				if !vc.flatStruct(et) {
					set["E_"+vc.typeName(et)+"*"] = true
				}
			case *ssa.Alloc:
				vc.addrFamilies(y, set)
			}
		case ssa.CallInstruction:
			if _, isGo := in.(*ssa.Go); isGo {
				continue
			}
			vc.modSetCall(x.Common(), set, onpath)
		case *ssa.Convert:
			if isStringT(x.X.Type()) {
				if _, ok := x.Type().Underlying().(*types.Slice); ok {
					set["E_uint8*"] = true
				}
			}
		}
	}
}

func (vc *VC) modSetCall(c *ssa.CallCommon, set map[string]bool, onpath map[*ssa.Function]bool) {
	if c.IsInvoke() {
		key := "iface " + vc.typeName(c.Value.Type()) + "." + c.Method.Name()
		if ct := vc.S.Contracts[key]; ct != nil {
			vc.modSetContractArgs(ct, nil, set, c, true)
			return
		}
		if n, ok := types.Unalias(c.Value.Type()).(*types.Named); ok && n.Obj().Pkg() != nil && vc.P.RepoPkgs[n.Obj().Pkg().Path()] {
			// closed world (as in invoke): the union over the implementors' methods
			if impls := vc.implementors(c.Value.Type()); len(impls) > 0 && len(impls) <= 8 {
				for _, T := range impls {
					m := vc.P.SSA.LookupMethod(T, c.Method.Pkg(), c.Method.Name())
					if m == nil {
						continue
					}
					if ct := vc.S.Contracts[funcKey(m)]; ct != nil {
						vc.modSetContractT(ct, m, set, nil)
						continue
					}
					if len(m.Blocks) == 0 {
						set["*"] = true
						continue
					}
					for k := range vc.modSet(m, onpath) {
						set[k] = true
					}
				}
				return
			}
			set["*"] = true
			return
		}
		vc.modSetExternal(c, set)
		return
	}
	if b, ok := c.Value.(*ssa.Builtin); ok {
		switch b.Name() {
		case "append", "copy":
			if st, ok := c.Args[0].Type().Underlying().(*types.Slice); ok {
				if vc.flatStruct(st.Elem()) {
					set["H_"+vc.typeName(st.Elem())+".*"] = true
				} else {
					set["E_"+vc.typeName(st.Elem())+"*"] = true
				}
			}
		case "delete":
			mt := c.Args[0].Type().Underlying().(*types.Map)
			set["M_"+vc.typeName(mt.Key())+"_"+vc.typeName(mt.Elem())+".*"] = true
		case "close":
			set["Chan.closed"] = true
		}
		return
	}
	callee := c.StaticCallee()
	if callee == nil {
		if mc, ok := c.Value.(*ssa.MakeClosure); ok {
			callee = mc.Fn.(*ssa.Function)
		}
	}
	if callee == nil {
		if vc.noEffectDynamic(c) {
			return
		}
		set["*"] = true
		return
	}
	if ms, ok := libModSet(vc, callee, c); ok {
		for k := range ms {
			set[k] = true
		}
		return
	}
	if ct := vc.S.Contracts[funcKey(callee)]; ct != nil {
		vc.modSetContractArgs(ct, callee, set, c, false)
		return
	}
	if vc.P.isRepoFunc(callee) && len(callee.Blocks) > 0 {
		for k := range vc.modSet(callee, onpath) {
			set[k] = true
		}
		return
	}
	vc.modSetExternal(c, set)
}

// noEffectDynamic: a dynamic call that doCall treats as having no effect on modelled state
// (context.CancelFunc, a func-typed field or parameter declared `noeffect`).
func (vc *VC) noEffectDynamic(c *ssa.CallCommon) bool {
	if vc.typeName(c.Value.Type()) == "context.CancelFunc" {
		return true
	}
	switch v := c.Value.(type) {
	case *ssa.UnOp:
		if fa, ok := v.X.(*ssa.FieldAddr); ok {
			T := fa.X.Type().Underlying().(*types.Pointer).Elem()
			return vc.S.NoEffect[vc.typeName(T)+"."+fieldName(T, fa.Field)]
		}
	case *ssa.Parameter:
		if v.Parent() != nil {
			return vc.S.NoEffect[funcKey(v.Parent())+"."+v.Name()]
		}
	}
	return false
}

func (vc *VC) modSetExternal(c *ssa.CallCommon, set map[string]bool) {
	for _, a := range c.Args {
		switch u := a.Type().Underlying().(type) {
		case *types.Signature:
			set["*"] = true
		case *types.Slice:
			if !vc.flatStruct(u.Elem()) {
				set["E_"+vc.typeName(u.Elem())+"*"] = true
			}
		case *types.Pointer:
			if vc.flatStruct(u.Elem()) {
				vc.structFamilies(u.Elem(), set, map[string]bool{})
			} else {
				vc.addrFamilies(a, set)
			}
		}
	}
}

// modSetContractArgs: like modSetContract but resolves parameter-rooted entries
// (x.f, x[*]) through the static types of the call's arguments.
func (vc *VC) modSetContractArgs(ct *Contract, callee *ssa.Function, set map[string]bool, c *ssa.CallCommon, invoke bool) {
	types_ := map[string]types.Type{}
	var names []string
	if callee != nil && len(ct.Params) == 0 {
		names = paramNames(callee)
	} else {
		names = ct.Params
	}
	var argT []types.Type
	if invoke {
		argT = append(argT, c.Value.Type())
	}
	for _, a := range c.Args {
		argT = append(argT, a.Type())
	}
	for i, n := range names {
		if i < len(argT) {
			types_[n] = argT[i]
		}
	}
	vc.modSetContractT(ct, callee, set, types_)
}

func (vc *VC) modSetContract(ct *Contract, callee *ssa.Function, set map[string]bool) {
	vc.modSetContractT(ct, callee, set, nil)
}

// modSetContractT over-approximates a modifies clause to family names.
func (vc *VC) modSetContractT(ct *Contract, callee *ssa.Function, set map[string]bool, ptypes map[string]types.Type) {
	if ct.Pure {
		return
	}
	if !ct.HasMod {
		// ghost updates performed by the callee's own site clauses
		for _, sc := range ct.Sites {
			if sc.What == "ghost" && sc.GhostLHS != nil {
				src := strings.TrimSpace(sc.GhostLHS.Src)
				if i := strings.LastIndex(src, "."); i >= 0 {
					for k, gf := range vc.S.Ghosts {
						if gf.Name == src[i+1:] {
							set["H_"+k] = true
						}
					}
				}
			}
		}
		if callee != nil && len(callee.Blocks) > 0 {
			for k := range vc.modSet(callee, map[*ssa.Function]bool{}) {
				set[k] = true
			}
			return
		}
		set["*"] = true
		return
	}
	for _, m := range ct.Modifies {
		m = strings.TrimSpace(m)
		switch {
		case m == "*":
			set["*"] = true
		case strings.HasPrefix(m, "fam:"):
			set[strings.TrimPrefix(m, "fam:")] = true
		case strings.HasPrefix(m, "*") && len(m) > 1:
			if t, ok := ptypes[m[1:]]; ok {
				if pt, ok := t.Underlying().(*types.Pointer); ok {
					if vc.flatStruct(pt.Elem()) {
						set["H_"+vc.typeName(pt.Elem())+".*"] = true
					} else {
						set["E_"+vc.typeName(pt.Elem())+"*"] = true
					}
					continue
				}
			}
			set["*"] = true
		case strings.HasSuffix(m, "[*]"):
			if t, ok := pathType(ptypes, strings.TrimSuffix(m, "[*]")); ok {
				switch u := t.Underlying().(type) {
				case *types.Slice:
					if vc.flatStruct(u.Elem()) {
						set["H_"+vc.typeName(u.Elem())+".*"] = true
					} else {
						set["E_"+vc.typeName(u.Elem())+"*"] = true
					}
					continue
				case *types.Map:
					set["M_"+vc.typeName(u.Key())+"_"+vc.typeName(u.Elem())+".*"] = true
					continue
				}
			}
			// element families: type unknown without evaluation -> all element/map families
			set["E_*"] = true
			set["M_*"] = true
			set["H_*"] = true
		default:
			i := strings.LastIndex(m, ".")
			if i < 0 {
				set["*"] = true
				continue
			}
			fld := m[i+1:]
			if t, ok := ptypes[m[:i]]; ok && fld != "*" {
				if _, isI := t.Underlying().(*types.Interface); isI {
					if _, g := vc.S.Ghosts["iface."+fld]; g {
						set["H_iface."+fld] = true
						continue
					}
				}
				T := t
				if pt, ok := T.Underlying().(*types.Pointer); ok {
					T = pt.Elem()
				}
				set["H_"+vc.typeName(T)+"."+fld+"*"] = true
				continue
			}
			if fld == "*" {
				set["H_*"] = true
			} else {
				set["H_*."+fld+"*"] = true
			}
		}
	}
}


// implementors: the closed set of repository types implementing a repository
// interface that has unexported methods (nobody outside can implement it) —
// or any repository interface when all implementors are in the repository.
func (vc *VC) implementors(it types.Type) []types.Type {
	key := "impl:" + vc.typeName(it)
	if v, ok := implMemo[key]; ok {
		return v
	}
	iface, ok := it.Underlying().(*types.Interface)
	if !ok {
		return nil
	}
	closed := false
	if n, ok := types.Unalias(it).(*types.Named); ok && !n.Obj().Exported() {
		closed = true // an unexported interface type can only be populated by this package
	}
	for i := 0; i < iface.NumMethods(); i++ {
		if !iface.Method(i).Exported() {
			closed = true
		}
	}
	var out []types.Type
	if closed {
		var names []string
		for n := range vc.P.TypesByName {
			names = append(names, n)
		}
		sortStrings(names)
		for _, n := range names {
			T := vc.P.TypesByName[n]
			if _, isI := T.Underlying().(*types.Interface); isI {
				continue
			}
			if types.Implements(T, iface) {
				out = append(out, T)
			} else if types.Implements(types.NewPointer(T), iface) {
				out = append(out, types.NewPointer(T))
			}
		}
	}
	implMemo[key] = out
	return out
}

var implMemo = map[string][]types.Type{}

// repoImplementors: every repository type implementing the interface, whether or not the interface is closed
// (for `conforms repo`: the contract stays ASSUMED for implementations outside the repository).
func (vc *VC) repoImplementors(it types.Type) []types.Type {
	iface, ok := it.Underlying().(*types.Interface)
	if !ok {
		return nil
	}
	var names []string
	for n := range vc.P.TypesByName {
		names = append(names, n)
	}
	sortStrings(names)
	var out []types.Type
	for _, n := range names {
		T := vc.P.TypesByName[n]
		if _, isI := T.Underlying().(*types.Interface); isI {
			continue
		}
		if types.Implements(T, iface) {
			out = append(out, T)
		} else if types.Implements(types.NewPointer(T), iface) {
			out = append(out, types.NewPointer(T))
		}
	}
	return out
}

// invokeDispatch: split an interface method call over the closed implementor set.
func (fr *Frame) invokeDispatch(c *ssa.CallCommon, impls []types.Type, recv Val, args []Val, rt types.Type, pos token.Pos) Val {
	vc := fr.vc
	type branch struct {
		cond string
		st   State
		res  Val
	}
	var bs []branch
	start := *fr.cur
	startR := fr.curR
	for _, T := range impls {
		m := vc.P.SSA.LookupMethod(T, c.Method.Pkg(), c.Method.Name())
		if m == nil {
			continue
		}
		cond := eq(recv.L[0], vc.typeTag(T))
		st := start
		fr.cur = &st
		fr.curR = vc.define("R.dispatch", "Bool", and(startR, cond))
		rv := fr.unpayload(recv.L[1], T)
		rv.Typ = T
		all := append([]Val{rv}, args...)
		res := fr.staticCall(m, nil, all, rt, pos)
		bs = append(bs, branch{cond: cond, st: *fr.cur, res: res})
	}
	fr.curR = startR
	if len(bs) == 0 {
		fr.cur = &start
		return fr.unknownCall("invoke without implementors", args, rt, true)
	}
	var conds []string
	var hs []*Heap
	for _, b := range bs {
		conds = append(conds, b.cond)
		hs = append(hs, b.st.heap)
	}
	// closed world: the dynamic type is one of the implementors (a nil receiver panics)
	vc.assume(startR, or(conds...))
	ns := start
	ns.heap = vc.heapMerge(conds, hs)
	now := bs[len(bs)-1].st.now
	for i := len(bs) - 2; i >= 0; i-- {
		now = ite(conds[i], bs[i].st.now, now)
	}
	ns.now = vc.define("now", "Int", now)
	fr.cur = &ns
	out := Val{Typ: rt}
	n := len(vc.shape(rt))
	if c.Signature().Results().Len() == 0 {
		return out
	}
	for l := 0; l < n; l++ {
		t := "0"
		if l < len(bs[len(bs)-1].res.L) {
			t = bs[len(bs)-1].res.L[l]
		}
		for i := len(bs) - 2; i >= 0; i-- {
			if l < len(bs[i].res.L) {
				t = ite(conds[i], bs[i].res.L[l], t)
			}
		}
		out.L = append(out.L, t)
	}
	return fr.nameVal2("dispatch.ret", out)
}

// pureResult: the result of a pure function as an uninterpreted function of
// (heap identity, arguments): deterministic in the same state, so the call in
// the code, repeated calls and uses of the call inside contracts agree.
func (vc *VC) pureResult(key string, h *Heap, args []Val, rt types.Type) Val {
	hid := "0"
	if !vc.valueOnly(args) && h != nil {
		hid = fmt.Sprint(h.id)
	}
	as := []string{hid}
	srt := []string{"Int"}
	for _, a := range args {
		for i, l := range a.L {
			as = append(as, l)
			srt = append(srt, vc.sortOf(a, i))
		}
	}
	out := Val{Typ: rt}
	for _, l := range vc.shape(rt) {
		f := vc.declFun("pf_"+key+l.Suffix, srt, l.Sort)
		out.L = append(out.L, "("+f+" "+joinSp(as)+")")
	}
	return out
}

func mentionsGhostVar(ct *Contract, src string) bool {
	for _, gv := range ct.GhostVars {
		if regexp.MustCompile(`\b` + regexp.QuoteMeta(gv.Name) + `\b`).MatchString(src) {
			return true
		}
	}
	return false
}

// structFamilies: the field families of struct type T including those of the
// structs / arrays embedded in it by value (one level of pointers is not followed).
func (vc *VC) structFamilies(T types.Type, set map[string]bool, seen map[string]bool) {
	n := vc.typeName(T)
	if seen[n] {
		return
	}
	seen[n] = true
	set["H_"+n+".*"] = true
	st, ok := T.Underlying().(*types.Struct)
	if !ok {
		return
	}
	for i := 0; i < st.NumFields(); i++ {
		ft := st.Field(i).Type()
		if vc.flatStruct(ft) {
			vc.structFamilies(ft, set, seen)
		} else if at, ok := ft.Underlying().(*types.Array); ok {
			if vc.flatStruct(at.Elem()) {
				vc.structFamilies(at.Elem(), set, seen)
			} else {
				set["E_"+vc.typeName(at.Elem())+"*"] = true
			}
		}
	}
}


// pathType resolves p or p.f.g (p a parameter) to its static type.
func pathType(ptypes map[string]types.Type, path string) (types.Type, bool) {
	parts := strings.Split(path, ".")
	t, ok := ptypes[parts[0]]
	if !ok {
		return nil, false
	}
	for _, f := range parts[1:] {
		if pt, ok := t.Underlying().(*types.Pointer); ok {
			t = pt.Elem()
		}
		st, ok := t.Underlying().(*types.Struct)
		if !ok {
			return nil, false
		}
		found := false
		for i := 0; i < st.NumFields(); i++ {
			if st.Field(i).Name() == f {
				t = st.Field(i).Type()
				found = true
				break
			}
		}
		if !found {
			return nil, false
		}
	}
	return t, true
}
