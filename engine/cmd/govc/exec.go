package main

// exec.go: symbolic execution of one go/ssa function into SMT definitions.
// Loops are cut at their headers (invariants), calls use contracts / inlining /
// havoc (calls.go).

import (
	"os"
	"fmt"
	"go/ast"
	"go/token"
	"go/types"
	"sort"
	"math/big"

	"golang.org/x/tools/go/ssa"
)

type nameDef struct {
	val    ssa.Value
	isAddr bool
	block  *ssa.BasicBlock
	idx    int
	pos    token.Pos
}

type retInfo struct {
	cond string
	vals []Val
	heap *Heap
	now  string
	blk  *ssa.BasicBlock
}

type deferred struct {
	call *ssa.CallCommon
	args []Val
	fnv  Val
	pos  token.Pos
	ins  *ssa.Defer
	cond string // reach condition under which the defer statement was executed
}

type State struct {
	heap   *Heap
	now    string
	defers []deferred
}

type Frame struct {
	inGo bool // the call site being processed is a go statement
	callRefs map[string]refBinding // by-reference captured variables of the closure whose contract is being applied
	vc       *VC
	fn       *ssa.Function
	id       int
	depth    int
	parent   *Frame
	vals     map[ssa.Value]Val
	reach    map[*ssa.BasicBlock]string
	out      map[*ssa.BasicBlock]*State
	entry    *State
	entryR   string
	names    map[string][]nameDef
	rets     []retInfo
	contract *Contract // contract being verified (top frame) or nil (inlined)
	top      *Frame
	loops    map[*ssa.BasicBlock]*loopInfo
	loopOrd  map[*ssa.BasicBlock]int
	cur      *State // state while executing a block
	curBlk   *ssa.BasicBlock
	curIdx   int
	curR     string
	siteCnt  map[string]int
	siteOrd  map[interface{}]int
	pseudoOrd map[interface{}]int
	hints    []string
	aliases  map[string]Val
	freeVars []Val
	params   []Val
	safety   map[string]bool
	inlPath  string
	panics   []string
}

type loopInfo struct {
	header *ssa.BasicBlock
	blocks map[*ssa.BasicBlock]bool
	ord    int
}

var frameCounter int

func (vc *VC) newFrame(fn *ssa.Function, parent *Frame) *Frame {
	frameCounter++
	fr := &Frame{vc: vc, fn: fn, id: frameCounter, parent: parent, vals: map[ssa.Value]Val{}, reach: map[*ssa.BasicBlock]string{},
		out: map[*ssa.BasicBlock]*State{}, names: map[string][]nameDef{}, siteCnt: map[string]int{}, safety: map[string]bool{}}
	if parent != nil {
		fr.depth = parent.depth + 1
		fr.top = parent.top
		fr.inlPath = parent.inlPath + ">" + fn.Name()
	} else {
		fr.top = fr
	}
	fr.findLoops()
	fr.collectNames()
	return fr
}

func (fr *Frame) vname(v ssa.Value) string {
	return fmt.Sprintf("f%d.%s", fr.id, v.Name())
}

// ---------------------------------------------------------------------------
// loops

func (fr *Frame) findLoops() {
	fr.loops = map[*ssa.BasicBlock]*loopInfo{}
	fr.loopOrd = map[*ssa.BasicBlock]int{}
	for _, b := range fr.fn.Blocks {
		for _, s := range b.Succs {
			if s.Dominates(b) {
				li := fr.loops[s]
				if li == nil {
					li = &loopInfo{header: s, blocks: map[*ssa.BasicBlock]bool{s: true}}
					fr.loops[s] = li
				}
				// natural loop of back edge b->s
				stack := []*ssa.BasicBlock{b}
				for len(stack) > 0 {
					x := stack[len(stack)-1]
					stack = stack[:len(stack)-1]
					if li.blocks[x] {
						continue
					}
					li.blocks[x] = true
					stack = append(stack, x.Preds...)
				}
			}
		}
	}
	// ordinal by source position of the header (first instruction pos), ties by index
	var hs []*ssa.BasicBlock
	for h := range fr.loops {
		hs = append(hs, h)
	}
	sort.Slice(hs, func(i, j int) bool {
		pi, pj := blockPos(hs[i]), blockPos(hs[j])
		if pi != pj {
			return pi < pj
		}
		return hs[i].Index < hs[j].Index
	})
	for i, h := range hs {
		fr.loops[h].ord = i + 1
		fr.loopOrd[h] = i + 1
		if os.Getenv("GOVC_DEBUG_LOOPS") != "" {
			fmt.Fprintf(os.Stderr, "LOOP %s #%d header b%d at %s\n", fr.fn.Name(), i+1, h.Index, fr.vc.P.Fset.Position(blockPos(h)))
		}
	}
}

func blockPos(b *ssa.BasicBlock) token.Pos {
	best := token.NoPos
	// (a Phi reports the position of the variable's declaration, which may lie before an
	// earlier loop: phis never contribute to a loop's source position)
	scan := func(blk *ssa.BasicBlock) {
		for _, in := range blk.Instrs {
			if _, isPhi := in.(*ssa.Phi); isPhi {
				continue
			}
			p := in.Pos()
			if d, ok := in.(*ssa.DebugRef); ok {
				p = d.Expr.Pos()
			}
			if p != token.NoPos && (best == token.NoPos || p < best) {
				best = p
			}
		}
	}
	scan(b)
	if best == token.NoPos {
		// look into loop body successors
		for _, s := range b.Succs {
			scan(s)
		}
	}
	return best
}

func isBackEdge(from, to *ssa.BasicBlock) bool { return to.Dominates(from) }

func (fr *Frame) collectNames() {
	// x/tools v0.29 go/ssa records the defining occurrence of `x := T{...}` / `var x = T{...}`
	// (composite-literal initialisers) with the variable's value BEFORE the store, i.e. its zero
	// value, and emits no reference after the store. Such a definition is re-pointed at the
	// DebugRef of the initialiser expression itself; if that cannot be found the definition is
	// dropped, so that a contract naming the variable fails to resolve instead of silently
	// denoting the zero value.
	initOf := map[token.Pos]ast.Expr{} // defining ident position -> composite-literal initialiser
	if syn := fr.fn.Syntax(); syn != nil {
		ast.Inspect(syn, func(n ast.Node) bool {
			switch t := n.(type) {
			case *ast.AssignStmt:
				if t.Tok == token.DEFINE && len(t.Lhs) == len(t.Rhs) {
					for i, l := range t.Lhs {
						if id, ok := l.(*ast.Ident); ok && isCompositeInit(t.Rhs[i]) {
							initOf[id.Pos()] = t.Rhs[i]
						}
					}
				}
			case *ast.ValueSpec:
				if len(t.Names) == len(t.Values) {
					for i, id := range t.Names {
						if isCompositeInit(t.Values[i]) {
							initOf[id.Pos()] = t.Values[i]
						}
					}
				}
			}
			return true
		})
	}
	type exprRef struct {
		val ssa.Value
		b   *ssa.BasicBlock
		i   int
	}
	exprRefs := map[ast.Expr]exprRef{}
	if len(initOf) > 0 {
		for _, b := range fr.fn.Blocks {
			for i, in := range b.Instrs {
				if d, ok := in.(*ssa.DebugRef); ok && !d.IsAddr {
					if _, isId := d.Expr.(*ast.Ident); !isId {
						exprRefs[d.Expr] = exprRef{d.X, b, i}
					}
				}
			}
		}
	}
	for _, b := range fr.fn.Blocks {
		for i, in := range b.Instrs {
			if d, ok := in.(*ssa.DebugRef); ok {
				if id, ok := d.Expr.(*ast.Ident); ok {
					nd := nameDef{d.X, d.IsAddr, b, i, id.Pos()}
					if init, stale := initOf[id.Pos()]; stale {
						if _, isConst := d.X.(*ssa.Const); isConst {
							er, found := exprRefs[ast.Unparen(init)]
							if !found || !types.Identical(er.val.Type(), d.X.Type()) {
								continue
							}
							nd = nameDef{er.val, false, er.b, er.i, id.Pos()}
						}
					}
					fr.names[id.Name] = append(fr.names[id.Name], nd)
				}
			}
		}
	}
}

func isCompositeInit(e ast.Expr) bool {
	e = ast.Unparen(e)
	if u, ok := e.(*ast.UnaryExpr); ok && u.Op == token.AND {
		e = ast.Unparen(u.X)
	}
	_, ok := e.(*ast.CompositeLit)
	return ok
}

// rpo returns blocks in reverse post-order ignoring back edges.
func (fr *Frame) rpo() []*ssa.BasicBlock {
	seen := map[*ssa.BasicBlock]bool{}
	var post []*ssa.BasicBlock
	var dfs func(b *ssa.BasicBlock)
	dfs = func(b *ssa.BasicBlock) {
		seen[b] = true
		// successors in reverse: in the reversed post-order a loop's body then precedes its exit,
		// so that the obligations of the body are not prefixed by the rest of the function
		for i := len(b.Succs) - 1; i >= 0; i-- {
			s := b.Succs[i]
			if !seen[s] && !isBackEdge(b, s) {
				dfs(s)
			}
		}
		post = append(post, b)
	}
	if len(fr.fn.Blocks) > 0 {
		dfs(fr.fn.Blocks[0])
	}
	out := make([]*ssa.BasicBlock, 0, len(post))
	for i := len(post) - 1; i >= 0; i-- {
		out = append(out, post[i])
	}
	return out
}

// edgeCond: condition under which control goes from p to b (given p reached).
func (fr *Frame) edgeCond(p, b *ssa.BasicBlock) string {
	r := fr.reach[p]
	if r == "" {
		return "false"
	}
	last := p.Instrs[len(p.Instrs)-1]
	if ifi, ok := last.(*ssa.If); ok {
		c := fr.get(ifi.Cond).T()
		if p.Succs[0] == b && p.Succs[1] == b {
			return r
		}
		if p.Succs[0] == b {
			return and(r, c)
		}
		return and(r, not(c))
	}
	return r
}

// ---------------------------------------------------------------------------
// running a function

func (fr *Frame) run(entry *State, entryReach string) {
	vc := fr.vc
	fr.entry = entry
	fr.entryR = entryReach
	if len(fr.fn.Blocks) == 0 {
		vc.errorf("%s: function without body", fr.fn)
		return
	}
	if fr.fn.Recover != nil {
		vc.note("recover block of " + fr.fn.String() + " ignored")
	}
	for _, b := range fr.rpo() {
		if b == fr.fn.Recover {
			continue
		}
		fr.curBlk = b
		var st *State
		if b.Index == 0 {
			fr.reach[b] = entryReach
			st = &State{heap: entry.heap, now: entry.now, defers: entry.defers}
		} else {
			st = fr.enterBlock(b)
			if st == nil {
				continue
			}
		}
		fr.cur = st
		fr.curR = fr.reach[b]
		for i, in := range b.Instrs {
			fr.curIdx = i
			fr.exec(in)
		}
		fr.out[b] = fr.cur
		// back edges out of b: invariant preservation
		for _, s := range b.Succs {
			if isBackEdge(b, s) {
				fr.checkInvariant(s, b, "inv-preserve")
			}
		}
	}
}

func (fr *Frame) enterBlock(b *ssa.BasicBlock) *State {
	vc := fr.vc
	var conds []string
	var preds []*ssa.BasicBlock
	for _, p := range b.Preds {
		if isBackEdge(p, b) {
			continue
		}
		if _, ok := fr.out[p]; !ok {
			continue // unreachable pred (e.g. recover)
		}
		conds = append(conds, fr.edgeCond(p, b))
		preds = append(preds, p)
	}
	if len(preds) == 0 {
		fr.reach[b] = "false"
		return nil
	}
	li := fr.loops[b]
	if li != nil {
		// loop header: check invariant on entry edges, then havoc
		for _, p := range preds {
			fr.checkInvariant(b, p, "inv-entry")
		}
	}
	r := vc.define(fmt.Sprintf("R.f%d.b%d", fr.id, b.Index), "Bool", or(conds...))
	fr.reach[b] = r
	var hs []*Heap
	var nows []string
	for _, p := range preds {
		hs = append(hs, fr.out[p].heap)
		nows = append(nows, fr.out[p].now)
	}
	st := &State{heap: vc.heapMerge(conds, hs)}
	// now: merge
	st.now = nows[len(nows)-1]
	for i := len(nows) - 2; i >= 0; i-- {
		st.now = ite(conds[i], nows[i], st.now)
	}
	if len(preds) > 1 && st.now != nows[0] {
		st.now = vc.define("now", "Int", st.now)
	}
	// defers: must agree
	st.defers = fr.out[preds[0]].defers
	for _, p := range preds[1:] {
		if len(fr.out[p].defers) != len(st.defers) {
			// keep the longest common prefix... conservative: mark unsupported
			vc.note("conditional defer in " + fr.fn.String() + ": each deferred call runs only on the paths that executed its defer statement")
			if len(fr.out[p].defers) > len(st.defers) {
				st.defers = fr.out[p].defers
			}
		}
	}
	// phis
	for _, in := range b.Instrs {
		phi, ok := in.(*ssa.Phi)
		if !ok {
			break
		}
		if li != nil {
			v := vc.freshVal(fr.vname(phi), phi.Type())
			fr.vals[phi] = v
			vc.assume(r, vc.typeFacts(v))
			if isRangeIndexPhi(phi) {
				// the hidden index of a range loop starts at -1 and is only ever incremented
				vc.assume(r, "(>= "+v.L[0]+" (- 1))")
			}
			continue
		}
		var vals []Val
		for _, p := range preds {
			for k, pp := range b.Preds {
				if pp == p {
					vals = append(vals, fr.get(phi.Edges[k]))
					break
				}
			}
		}
		res := Val{Typ: phi.Type()}
		n := len(vc.shape(phi.Type()))
		for l := 0; l < n; l++ {
			t := vals[len(vals)-1].L[l]
			for i := len(vals) - 2; i >= 0; i-- {
				t = ite(conds[i], vals[i].L[l], t)
			}
			res.L = append(res.L, t)
		}
		// closures / locs flow through phi only if identical
		same := true
		for _, v := range vals[1:] {
			if !sameLoc(v.Loc, vals[0].Loc) {
				same = false
			}
		}
		if same {
			res.Loc = vals[0].Loc
		} else {
			vc.note("pointer provenance lost at phi in " + fr.fn.String())
		}
		if len(vals) > 0 && vals[0].Clo != nil {
			sameC := true
			for _, v := range vals[1:] {
				if v.Clo != vals[0].Clo {
					sameC = false
				}
			}
			if sameC {
				res.Clo = vals[0].Clo
			}
		}
		fr.vals[phi] = fr.nameVal(phi, res)
	}
	if li != nil {
		mod := fr.loopModSet(li)
		save := fr.cur
		st.heap = fr.havocKeep(st.heap, mod, li)
		_ = save
		st.now = vc.fresh("now", "Int")
		// now is monotone
		for _, n := range nows {
			vc.assume(r, "(>= "+st.now+" "+n+")")
			break
		}
		// whatever a loop-carried variable refers to was allocated before this point
		for _, in := range b.Instrs {
			phi, ok := in.(*ssa.Phi)
			if !ok {
				break
			}
			v := fr.vals[phi]
			switch phi.Type().Underlying().(type) {
			case *types.Pointer, *types.Map, *types.Chan, *types.Slice:
				vc.assume(r, "(< (birth "+v.L[0]+") "+st.now+")")
			case *types.Interface:
				vc.assume(r, "(< (birth "+v.L[1]+") "+st.now+")")
			}
		}
		// the loop's own counters are the index terms its invariants are used at
		for _, in := range b.Instrs {
			phi, ok := in.(*ssa.Phi)
			if !ok {
				break
			}
			if bt, ok := phi.Type().Underlying().(*types.Basic); ok && bt.Info()&types.IsInteger != 0 {
				v := fr.vals[phi]
				if isRangeIndexPhi(phi) {
					fr.addHintFront("(+ " + v.L[0] + " 1)")
				} else {
					fr.addHintFront(v.L[0])
				}
			}
		}
		fr.cur = st
		fr.curR = r
		fr.assumeInvariant(b)
	}
	return st
}

func sameLoc(a, b *Loc) bool {
	if a == nil || b == nil {
		return a == b
	}
	if a.Fam != b.Fam || len(a.Idx) != len(b.Idx) {
		return false
	}
	for i := range a.Idx {
		if a.Idx[i] != b.Idx[i] {
			return false
		}
	}
	return true
}

// nameVal binds the leaves of v to named constants (keeps terms small).
func (fr *Frame) nameVal(x ssa.Value, v Val) Val {
	vc := fr.vc
	sh := vc.shape(x.Type())
	if len(sh) != len(v.L) {
		vc.errorf("%s: value %s (%s) has %d leaves, shape wants %d", fr.fn, x.Name(), x.Type(), len(v.L), len(sh))
		return v
	}
	out := Val{Typ: x.Type(), Loc: v.Loc, Clo: v.Clo}
	for i, l := range sh {
		t := v.L[i]
		if len(t) > 40 {
			t = vc.define(fr.vname(x)+l.Suffix, l.Sort, t)
		}
		out.L = append(out.L, t)
	}
	return out
}

func (fr *Frame) set(x ssa.Value, v Val) {
	fr.vals[x] = fr.nameVal(x, v)
}

// ---------------------------------------------------------------------------
// values

func (fr *Frame) get(x ssa.Value) Val {
	vc := fr.vc
	if v, ok := fr.vals[x]; ok {
		return v
	}
	switch c := x.(type) {
	case *ssa.Const:
		return fr.constVal(c)
	case *ssa.Global:
		t := c.Type().(*types.Pointer).Elem()
		name := "G_" + c.Pkg.Pkg.Name() + "." + c.Name()
		if vc.flatStruct(t) {
			return Val{Typ: c.Type(), L: []string{vc.declConst("gref_"+name, "Int")}}
		}
		if _, ok := t.Underlying().(*types.Array); ok {
			g := vc.declConst("gref_"+name, "Int")
			return Val{Typ: c.Type(), L: []string{g}}
		}
		return Val{Typ: c.Type(), L: []string{vc.declConst("gptr_"+name, "Int")}, Loc: &Loc{Fam: name, Typ: t}}
	case *ssa.Function:
		n := vc.declConst("fn_"+funcKey(c), "Int")
		return Val{Typ: c.Type(), L: []string{n}, Clo: &Closure{Fn: c}}
	case *ssa.Builtin:
		return Val{Typ: c.Type(), L: []string{"0"}}
	case *ssa.FreeVar:
		for i, fv := range fr.fn.FreeVars {
			if fv == c && i < len(fr.freeVars) {
				return fr.freeVars[i]
			}
		}
		// unknown binding: opaque pointer
		v := vc.freshVal(fr.vname(c), c.Type())
		fr.vals[x] = v
		return v
	case *ssa.Parameter:
		vc.errorf("%s: parameter %s unbound", fr.fn, c.Name())
	}
	vc.errorf("%s: value %s (%T) used before definition", fr.fn, x.Name(), x)
	v := vc.freshVal(fr.vname(x), x.Type())
	fr.vals[x] = v
	return v
}

func (fr *Frame) constVal(c *ssa.Const) Val {
	vc := fr.vc
	t := c.Type()
	if c.Value == nil {
		return vc.zeroVal(t)
	}
	switch u := t.Underlying().(type) {
	case *types.Basic:
		switch {
		case u.Info()&types.IsBoolean != 0:
			if c.Value.String() == "true" {
				return Val{Typ: t, L: []string{"true"}}
			}
			return Val{Typ: t, L: []string{"false"}}
		case u.Info()&types.IsInteger != 0:
			bi, ok := new(big.Int).SetString(c.Value.ExactString(), 10)
			if !ok {
				bi = big.NewInt(c.Int64())
			}
			return Val{Typ: t, L: []string{intLit(bi)}}
		case u.Info()&types.IsString != 0:
			s := constantString(c)
			return Val{Typ: t, L: []string{vc.strLit(s)}}
		case u.Info()&types.IsFloat != 0:
			return Val{Typ: t, L: []string{vc.declConst("float!"+sanitize(c.Value.ExactString()), "Int")}}
		}
	}
	return vc.zeroVal(t)
}

// hintTerms: Int terms the code uses as indices / loop counters (instantiation hints).
func (fr *Frame) hintTerms() []string {
	if len(fr.hints) > 8 {
		return fr.hints[:8]
	}
	return fr.hints
}

func (fr *Frame) addHintFront(t string) {
	top := fr.top
	if len(t) > 60 {
		return
	}
	for _, h := range top.hints {
		if h == t {
			return
		}
	}
	top.hints = append([]string{t}, top.hints...)
}

func (fr *Frame) addHint(t string) {
	top := fr.top
	if len(t) > 60 {
		return
	}
	for _, h := range top.hints {
		if h == t {
			return
		}
	}
	top.hints = append(top.hints, t)
}

// isRangeIndexPhi recognises the index variable go/ssa synthesises for
// `for i := range slice`: phi [-1, phi+1, ...].
func isRangeIndexPhi(phi *ssa.Phi) bool {
	if phi.Comment != "rangeindex" {
		return false
	}
	sawInit := false
	for _, e := range phi.Edges {
		switch x := e.(type) {
		case *ssa.Const:
			if x.Value == nil || x.Int64() != -1 {
				return false
			}
			sawInit = true
		case *ssa.BinOp:
			one, ok := x.Y.(*ssa.Const)
			if x.Op != token.ADD || x.X != ssa.Value(phi) || !ok || one.Value == nil || one.Int64() != 1 {
				return false
			}
		default:
			return false
		}
	}
	return sawInit
}
