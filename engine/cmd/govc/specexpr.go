package main

// specexpr.go: evaluation of contract expressions to SMT terms in a given
// program state (environment + heap + old heap).

import (
	"os"
	"fmt"
	"go/ast"
	"go/constant"
	"go/token"
	"go/types"
	"math/big"
	"strconv"
	"strings"

	"golang.org/x/tools/go/ssa"
)

type Env struct {
	vc    *VC
	fr    *Frame
	vars  map[string]Val
	heap  *Heap
	old   *Heap
	inOld bool // evaluating inside old(...)
	refs  map[string]refBinding // captured variables bound by reference (closure contracts at call sites)
	refFr *Frame
	now   string
	blk   *ssa.BasicBlock // program point for local-name resolution
	idx   int
	pkg   *types.Package
	reach string
	oldNowT string
	noHints bool
	frames  *[]frameReq // assumption side: lazily framed unchanged() requests
	depthHints int
	pol     int // +1: the expression is a proof goal; -1: an assumption; 0: unknown
	errs  *[]string
	what  string
	loopHdr *ssa.BasicBlock // the loop whose invariant is being evaluated (for ranged())
}

func (e *Env) errf(f string, a ...any) {
	msg := fmt.Sprintf("%s: %s", e.what, fmt.Sprintf(f, a...))
	e.vc.errorf("%s", msg)
}

func (e *Env) with(name string, v Val) *Env {
	n := *e
	n.vars = map[string]Val{}
	for k, x := range e.vars {
		n.vars[k] = x
	}
	n.vars[name] = v
	return &n
}

// assumeTyped: values read from typed Go memory are within their type's range
// (typing invariant); asserted as a background fact unless the term mentions a
// bound variable.
func (e *Env) assumeTyped(v Val) Val {
	if v.Typ == nil {
		return v
	}
	for _, l := range v.L {
		if strings.Contains(l, "bv.") {
			return v
		}
	}
	if f := e.vc.typeFacts(v); f != "true" {
		// the fact holds for the heap state the expression is evaluated in, i.e. on the paths
		// that reach this program point: guard it with the reach condition
		r := e.reach
		if r == "" {
			r = "true"
		}
		key := "typed:" + r + ":" + f
		if !e.vc.specDone[key] {
			e.vc.specDone[key] = true
			e.vc.assume(r, f)
		}
	}
	return v
}

func boolVal(t string) Val { return Val{L: []string{t}, S: []string{"Bool"}} }
func intVal(t string) Val  { return Val{L: []string{t}, S: []string{"Int"}} }

func (vc *VC) sortOf(v Val, i int) string {
	if v.S != nil {
		return v.S[i]
	}
	if v.Typ != nil {
		sh := vc.shape(v.Typ)
		if i < len(sh) {
			return sh[i].Sort
		}
	}
	return "Int"
}

func specSort(t string) string {
	switch t {
	case "bool":
		return "Bool"
	case "seq":
		return "(Array Int Int)"
	case "bseq":
		return "(Array Int Bool)"
	}
	return "Int"
}

func (e *Env) evalGoal(s *SExpr) Val {
	n := *e
	n.pol = 1
	return n.eval(s)
}

func (e *Env) evalAssume(s *SExpr) Val {
	n := *e
	n.pol = -1
	return n.eval(s)
}

func (e *Env) flipped() *Env {
	n := *e
	n.pol = -e.pol
	return &n
}

func (e *Env) eval(s *SExpr) Val {
	switch s.Kind {
	case "imp":
		return boolVal(imp(e.flipped().eval(s.L).T(), e.eval(s.R).T()))
	case "and":
		return boolVal(and(e.eval(s.L).T(), e.eval(s.R).T()))
	case "or":
		return boolVal(or(e.eval(s.L).T(), e.eval(s.R).T()))
	case "not":
		return boolVal(not(e.flipped().eval(s.L).T()))
	case "forall", "exists":
		n := e
		var bs []string
		var guards []string
		for _, v := range s.Vars {
			sym := q(e.vc.freshName("bv." + v.Name))
			srt := specSort(v.Type)
			bs = append(bs, "("+sym+" "+srt+")")
			bv := Val{L: []string{sym}, S: []string{srt}}
			// typed bound variables: *T pointers, Go ints get ranges
			if t := e.resolveType(v.Type); t != nil {
				bv = Val{Typ: t, L: []string{sym}}
				if f := e.vc.typeFacts(bv); f != "true" {
					guards = append(guards, f)
				}
			}
			n = n.with(v.Name, bv)
		}
		body := n.eval(s.Body).T()
		if os.Getenv("GOVC_DEBUG_INV") != "" {
			fmt.Fprintf(os.Stderr, "QUANT pol=%d guards=%v body=%s kind=%s\n", e.pol, guards, body, s.Body.Kind)
		}
		// instantiation hints: forall k.P(k) is equivalent to (forall k.P(k)) /\ P(t) and
		// exists k.P(k) to (exists k.P(k)) \/ P(t) for any term t; the index terms the code
		// itself uses are added as instances so that the solvers need not guess them.
		var insts []string
		wantHints := (s.Kind == "forall" && e.pol <= 0) || (s.Kind == "exists" && e.pol >= 0)
		if wantHints && len(s.Vars) == 1 && specSort(s.Vars[0].Type) == "Int" && e.resolveType(s.Vars[0].Type) == nil && e.fr != nil && !e.noHints {
			for _, t := range e.fr.top.hintTerms() {
				if strings.Contains(t, "bv.") {
					continue
				}
				m := n.with(s.Vars[0].Name, Val{L: []string{t}, S: []string{"Int"}})
				m.noHints = e.depthHints >= 1
				m.depthHints = e.depthHints + 1
				insts = append(insts, m.eval(s.Body).T())
			}
		}
		if s.Kind == "forall" {
			q := "(forall (" + strings.Join(bs, " ") + ") " + imp(and(guards...), body) + ")"
			return boolVal(and(append([]string{q}, insts...)...))
		}
		q := "(exists (" + strings.Join(bs, " ") + ") " + and(append(guards, body)...) + ")"
		return boolVal(or(append([]string{q}, insts...)...))
	case "go":
		return e.evalGo(s.Go)
	}
	e.errf("bad spec expression kind %q", s.Kind)
	return boolVal("true")
}

func (e *Env) resolveType(name string) types.Type {
	switch name {
	case "int", "bool", "seq", "bseq", "ref", "nat":
		return nil
	}
	ptr := 0
	for strings.HasPrefix(name, "*") {
		ptr++
		name = name[1:]
	}
	var t types.Type
	if b := types.Universe.Lookup(name); b != nil {
		if tn, ok := b.(*types.TypeName); ok {
			t = tn.Type()
		}
	}
	if t == nil {
		if strings.Contains(name, ".") {
			t = e.vc.P.TypesByName[name]
			if t == nil {
				parts := strings.SplitN(name, ".", 2)
				if o, _ := e.vc.P.lookupMember(parts[0], parts[1]); o != nil {
					if tn, ok := o.(*types.TypeName); ok {
						t = tn.Type()
					}
				}
			}
		} else if e.pkg != nil {
			if o := e.pkg.Scope().Lookup(name); o != nil {
				if tn, ok := o.(*types.TypeName); ok {
					t = tn.Type()
				}
			}
		}
	}
	if t == nil {
		return nil
	}
	for ; ptr > 0; ptr-- {
		t = types.NewPointer(t)
	}
	return t
}

func (e *Env) typeFromExpr(x ast.Expr) types.Type {
	switch t := x.(type) {
	case *ast.StarExpr:
		if in := e.typeFromExpr(t.X); in != nil {
			return types.NewPointer(in)
		}
	case *ast.Ident:
		return e.resolveType(t.Name)
	case *ast.SelectorExpr:
		if id, ok := t.X.(*ast.Ident); ok {
			return e.resolveType(id.Name + "." + t.Sel.Name)
		}
	case *ast.ParenExpr:
		return e.typeFromExpr(t.X)
	case *ast.ArrayType:
		if in := e.typeFromExpr(t.Elt); in != nil && t.Len == nil {
			return types.NewSlice(in)
		}
	}
	return nil
}

func (e *Env) constOf(c *types.Const) Val {
	vc := e.vc
	v := c.Val()
	switch v.Kind() {
	case constant.Bool:
		return Val{Typ: c.Type(), L: []string{fmt.Sprint(constant.BoolVal(v))}}
	case constant.Int:
		bi, _ := new(big.Int).SetString(v.ExactString(), 10)
		t := c.Type()
		if b, ok := t.(*types.Basic); ok && b.Info()&types.IsUntyped != 0 {
			return intVal(intLit(bi))
		}
		return Val{Typ: t, L: []string{intLit(bi)}}
	case constant.String:
		return Val{Typ: types.Typ[types.String], L: []string{vc.strLit(constant.StringVal(v))}}
	}
	return intVal(vc.declConst("const!"+c.Name(), "Int"))
}

func (e *Env) lookupIdent(name string) (Val, bool) {
	vc := e.vc
	if rb, ok := e.refs[name]; ok && e.refFr != nil {
		lv := e.refFr.loadPtr(e.heap, rb.ptr, rb.elem)
		lv.Typ = rb.elem
		return lv, true
	}
	if v, ok := e.vars[name]; ok {
		return v, true
	}
	switch name {
	case "nil":
		return Val{L: []string{"0"}, S: []string{"Int"}}, true
	case "true", "false":
		return boolVal(name), true
	case "now":
		return intVal(e.now), true
	}
	if c, ok := vc.S.Consts[name]; ok {
		se, err := parseSExpr(c)
		if err == nil {
			return e.eval(se), true
		}
	}
	if e.fr != nil {
		for _, own := range []*Frame{e.fr, e.fr.top} {
			oc := own.contract
			if oc == nil {
				oc = own.ownContract()
			}
			if oc == nil {
				continue
			}
			for _, gv := range oc.GhostVars {
				if gv.Name == name {
					fam := "GV_" + funcKey(own.fn) + "." + name
					srt := specSort(gv.GType)
					vc.family(fam, srt)
					return Val{L: []string{vc.lookup(e.heap, fam)}, S: []string{srt}}, true
				}
			}
		}
	}
	if e.fr != nil {
		fr := e.fr
		// old(v) of a variable captured by reference: the variable's cell in the pre-state, not the
		// SSA value of the dominating read (which follows assignments made inside the closure)
		if e.inOld {
			for i, fv := range fr.fn.FreeVars {
				if pt, ok := fv.Type().Underlying().(*types.Pointer); ok && fv.Name() == name && i < len(fr.freeVars) {
					v := fr.freeVars[i]
					v.Typ = fv.Type()
					lv := fr.loadPtr(e.heap, v, pt.Elem())
					lv.Typ = pt.Elem()
					return lv, true
				}
			}
		}
		// loop-header phis and dominating DebugRefs
		if v, ok := fr.resolveLocal(name, e.blk, e.idx, e.heap); ok {
			return v, true
		}
		for i, p := range fr.fn.Params {
			if p.Name() == name && i < len(fr.params) {
				return fr.params[i], true
			}
		}
		for i, fv := range fr.fn.FreeVars {
			if fv.Name() == name && i < len(fr.freeVars) {
				// a captured variable: the source-level name denotes the variable's current value
				v := fr.freeVars[i]
				v.Typ = fv.Type()
				if pt, ok := fv.Type().Underlying().(*types.Pointer); ok {
					lv := fr.loadPtr(e.heap, v, pt.Elem())
					lv.Typ = pt.Elem()
					return lv, true
				}
				return v, true
			}
		}
	}
	if e.pkg != nil {
		if o := e.pkg.Scope().Lookup(name); o != nil {
			switch oo := o.(type) {
			case *types.Const:
				return e.constOf(oo), true
			case *types.Var:
				// package-level variable
				return e.globalVar(e.pkg, oo), true
			}
		}
	}
	if o := types.Universe.Lookup(name); o != nil {
		if c, ok := o.(*types.Const); ok {
			return e.constOf(c), true
		}
	}
	return Val{}, false
}

func (e *Env) globalVar(p *types.Package, v *types.Var) Val {
	vc := e.vc
	name := "G_" + p.Name() + "." + v.Name()
	t := v.Type()
	if vc.flatStruct(t) {
		return vc.loadStruct(e.heap, t, vc.declConst("gref_"+name, "Int"))
	}
	return vc.loadLoc(e.heap, &Loc{Fam: name, Typ: t})
}

// resolveLocal finds the SSA value bound to a source-level local at a point.
func (fr *Frame) resolveLocal(name string, blk *ssa.BasicBlock, idx int, h *Heap) (Val, bool) {
	if blk == nil {
		return Val{}, false
	}
	// 1. phi of this block (loop header) with that comment
	for _, in := range blk.Instrs {
		phi, ok := in.(*ssa.Phi)
		if !ok {
			break
		}
		if phi.Comment == name {
			if v, ok := fr.vals[phi]; ok {
				return v, true
			}
		}
	}
	defs := append([]nameDef{}, fr.names[name]...)
	// phis carrying this variable (joins of different assignments) are definitions too
	for _, b := range fr.fn.Blocks {
		for _, in := range b.Instrs {
			phi, ok := in.(*ssa.Phi)
			if !ok {
				break
			}
			if phi.Comment == name {
				defs = append(defs, nameDef{val: phi, block: b, idx: -1})
			}
		}
	}
	var best *nameDef
	for i := range defs {
		d := &defs[i]
		if _, ok := fr.vals[d.val]; !ok {
			if _, isC := d.val.(*ssa.Const); !isC {
				if _, isP := d.val.(*ssa.Parameter); !isP {
					if _, isG := d.val.(*ssa.Global); !isG {
						continue
					}
				}
			}
		}
		if d.block == blk {
			if d.idx >= idx {
				continue
			}
		} else if !d.block.Dominates(blk) {
			continue
		}
		if best == nil {
			best = d
			continue
		}
		// the reaching definition is the dominator-deepest one; inside one block, the latest
		if best.block == d.block {
			if d.idx > best.idx {
				best = d
			}
		} else if best.block.Dominates(d.block) {
			best = d
		}
	}
	if os.Getenv("GOVC_DEBUG_INV") != "" {
		fmt.Fprintf(os.Stderr, "RESOLVE %s in b%d@%d: %d defs\n", name, blk.Index, idx, len(defs)); for _, d := range defs { fmt.Fprintf(os.Stderr, "   def %s = %v (%T) b%d@%d addr=%v\n", d.val.Name(), d.val, d.val, d.block.Index, d.idx, d.isAddr) }
	}
	if best == nil {
		return Val{}, false
	}
	v := fr.get(best.val)
	if best.isAddr {
		T := best.val.Type().Underlying().(*types.Pointer).Elem()
		lv := fr.loadPtr(h, v, T)
		lv.Typ = T
		return lv, true
	}
	return v, true
}

func (e *Env) evalGo(x ast.Expr) Val {
	vc := e.vc
	switch t := x.(type) {
	case *ast.ParenExpr:
		return e.evalGo(t.X)
	case *ast.BasicLit:
		switch t.Kind {
		case token.INT:
			bi, ok := new(big.Int).SetString(t.Value, 0)
			if !ok {
				e.errf("bad int literal %s", t.Value)
				return intVal("0")
			}
			return intVal(intLit(bi))
		case token.STRING:
			s, _ := strconv.Unquote(t.Value)
			return Val{Typ: types.Typ[types.String], L: []string{vc.strLit(s)}}
		case token.CHAR:
			s, _ := strconv.Unquote(t.Value)
			return intVal(fmt.Sprint(int([]rune(s)[0])))
		}
	case *ast.Ident:
		if v, ok := e.lookupIdent(t.Name); ok {
			return v
		}
		e.errf("unknown identifier %q", t.Name)
		return intVal("0")
	case *ast.UnaryExpr:
		v := e.evalGo(t.X)
		switch t.Op {
		case token.NOT:
			return boolVal(not(v.T()))
		case token.SUB:
			return intVal("(- " + v.T() + ")")
		case token.AND:
			return v
		}
	case *ast.StarExpr:
		v := e.evalGo(t.X)
		if v.Typ != nil {
			if pt, ok := v.Typ.Underlying().(*types.Pointer); ok {
				if vc.flatStruct(pt.Elem()) {
					return v // struct refs: selection goes through the pointer
				}
				fr := e.fr
				if fr == nil {
					fr = &Frame{vc: vc}
				}
				lv := fr.loadPtr(e.heap, v, pt.Elem())
				lv.Typ = pt.Elem()
				return lv
			}
		}
		e.errf("cannot dereference %s", exprStr(t.X))
		return intVal("0")
	case *ast.BinaryExpr:
		return e.evalBinary(t)
	case *ast.SelectorExpr:
		return e.evalSelector(t)
	case *ast.IndexExpr:
		return e.evalIndex(t)
	case *ast.CallExpr:
		return e.evalCall(t)
	case *ast.SliceExpr:
		e.errf("slice expressions are not supported in contracts")
	}
	e.errf("unsupported expression %s (%T)", exprStr(x), x)
	return intVal("0")
}

func exprStr(x ast.Expr) string {
	return types.ExprString(x)
}

func (e *Env) evalBinary(t *ast.BinaryExpr) Val {
	vc := e.vc
	switch t.Op {
	case token.LAND:
		return boolVal(and(e.evalGo(t.X).T(), e.evalGo(t.Y).T()))
	case token.LOR:
		return boolVal(or(e.evalGo(t.X).T(), e.evalGo(t.Y).T()))
	}
	a, b := e.evalGo(t.X), e.evalGo(t.Y)
	switch t.Op {
	case token.EQL, token.NEQ:
		var cs []string
		isNil := func(x ast.Expr) bool { id, ok := x.(*ast.Ident); return ok && id.Name == "nil" }
		switch {
		case isNil(t.Y) || isNil(t.X):
			v := a
			if isNil(t.X) {
				v = b
			}
			cs = append(cs, eq(v.L[0], "0"))
		default:
			n := len(a.L)
			if len(b.L) != n {
				// interface vs concrete pointer: compare payload
				if len(a.L) == 2 && len(b.L) == 1 {
					cs = append(cs, eq(a.L[1], b.L[0]))
				} else if len(b.L) == 2 && len(a.L) == 1 {
					cs = append(cs, eq(b.L[1], a.L[0]))
				} else {
					e.errf("comparison of values with different shapes: %s", exprStr(t))
				}
			} else {
				for i := 0; i < n; i++ {
					if vc.sortOf(a, i) != vc.sortOf(b, i) {
						e.errf("sort mismatch in comparison %s", exprStr(t))
					}
					cs = append(cs, eq(a.L[i], b.L[i]))
				}
			}
		}
		r := and(cs...)
		if t.Op == token.NEQ {
			r = not(r)
		}
		return boolVal(r)
	case token.LSS, token.LEQ, token.GTR, token.GEQ:
		op := map[token.Token]string{token.LSS: "<", token.LEQ: "<=", token.GTR: ">", token.GEQ: ">="}[t.Op]
		return boolVal("(" + op + " " + a.T() + " " + b.T() + ")")
	case token.ADD:
		if a.Typ != nil && isStringT(a.Typ) {
			r := "(strcat " + a.T() + " " + b.T() + ")"
			return Val{Typ: a.Typ, L: []string{r}}
		}
		return intVal("(+ " + a.T() + " " + b.T() + ")")
	case token.SUB:
		return intVal("(- " + a.T() + " " + b.T() + ")")
	case token.MUL:
		return intVal("(* " + a.T() + " " + b.T() + ")")
	case token.QUO:
		return intVal("(div " + a.T() + " " + b.T() + ")")
	case token.REM:
		return intVal("(mod " + a.T() + " " + b.T() + ")")
	case token.OR:
		// the same uninterpreted bit operations the code translation uses (axiomatised bounds only)
		return intVal("(bor " + a.T() + " " + b.T() + ")")
	case token.AND:
		return intVal("(band " + a.T() + " " + b.T() + ")")
	}
	e.errf("unsupported operator %s", t.Op)
	return intVal("0")
}

// selectField: v.name where v is a struct pointer or flat struct value.
func (e *Env) selectField(v Val, name string, src string) Val {
	vc := e.vc
	if v.Typ == nil {
		e.errf("selector %s on untyped value", src)
		return intVal("0")
	}
	T := v.Typ
	isPtr := false
	if _, ok := T.Underlying().(*types.Interface); ok {
		if gf, ok := vc.S.Ghosts["iface."+name]; ok {
			// ghost state of the object behind ANY interface value (e.g. a socket seen as
			// net.PacketConn, transport.UDPConn or io.Closer): keyed by the payload only
			fam := "H_iface." + name
			srt := specSort(gf.GType)
			vc.family(fam, "(Array Int "+srt+")")
			return Val{L: []string{"(select " + vc.lookup(e.heap, fam) + " " + v.L[1] + ")"}, S: []string{srt}}
		}
		if gf, ok := vc.S.Ghosts[vc.typeName(T)+"."+name]; ok {
			fam := "H_" + vc.typeName(T) + "." + name
			srt := specSort(gf.GType)
			vc.family(fam, "(Array Int "+srt+")")
			return Val{L: []string{"(select " + vc.lookup(e.heap, fam) + " " + v.L[1] + ")"}, S: []string{srt}}
		}
	}
	if pt, ok := T.Underlying().(*types.Pointer); ok {
		T = pt.Elem()
		isPtr = true
	}
	// an interface-level ghost (iface.g) of the object behind a pointer: the payload of any interface value
	// made from the pointer is the pointer itself
	if gf, ok := vc.S.Ghosts["iface."+name]; ok && isPtr {
		if _, own := vc.S.Ghosts[vc.typeName(T)+"."+name]; !own {
			if obj, _, _ := types.LookupFieldOrMethod(T, true, e.pkgOf(T), name); obj == nil {
				fam := "H_iface." + name
				srt := specSort(gf.GType)
				vc.family(fam, "(Array Int "+srt+")")
				return Val{L: []string{"(select " + vc.lookup(e.heap, fam) + " " + v.L[0] + ")"}, S: []string{srt}}
			}
		}
	}
	// ghost field?
	if gf, ok := vc.S.Ghosts[vc.typeName(T)+"."+name]; ok && isPtr {
		fam := "H_" + vc.typeName(T) + "." + name
		srt := specSort(gf.GType)
		vc.family(fam, "(Array Int "+srt+")")
		return Val{L: []string{"(select " + vc.lookup(e.heap, fam) + " " + v.L[0] + ")"}, S: []string{srt}}
	}
	if !isStructT(T) {
		e.errf("selector %s: %s is not a struct", src, vc.typeName(T))
		return intVal("0")
	}
	obj, path, _ := types.LookupFieldOrMethod(T, true, e.pkgOf(T), name)
	fld, ok := obj.(*types.Var)
	if !ok || fld == nil {
		e.errf("selector %s: no field %s in %s", src, name, vc.typeName(T))
		return intVal("0")
	}
	cur := v
	curT := T
	curPtr := isPtr
	for _, i := range path {
		st := curT.Underlying().(*types.Struct)
		ft := st.Field(i).Type()
		if curPtr {
			if !vc.flatStruct(curT) {
				fam := "H_" + vc.typeName(curT) + "." + st.Field(i).Name()
				cur = vc.loadLoc(e.heap, &Loc{Fam: fam, Idx: []string{cur.L[0]}, Typ: ft})
				curPtr = false
			} else {
				fa := vc.fieldAddr(curT, i, cur.L[0])
				if fa.Loc != nil {
					cur = vc.loadLoc(e.heap, fa.Loc)
					curPtr = false
				} else {
					cur = fa // pointer to embedded struct / array
					curPtr = true
					if _, isArr := ft.Underlying().(*types.Array); isArr {
						cur = Val{Typ: types.NewPointer(ft), L: fa.L}
						curT = ft
						continue
					}
				}
			}
		} else {
			if !vc.flatStruct(curT) {
				e.errf("selector %s: field of opaque struct value", src)
				return intVal("0")
			}
			a, b := vc.fieldRange(curT, i)
			cur = Val{Typ: ft, L: cur.L[a:b]}
		}
		curT = ft
		if pt, ok := ft.Underlying().(*types.Pointer); ok && !curPtr {
			// auto-deref for the next path element
			curT = pt.Elem()
			curPtr = true
			cur.Typ = ft
		}
	}
	if cur.Typ == nil || true {
		if curPtr && !types.Identical(cur.Typ, fld.Type()) {
			// pointer to embedded struct: type is *FT
			if _, ok := fld.Type().Underlying().(*types.Pointer); ok {
				cur.Typ = fld.Type()
			} else {
				cur.Typ = types.NewPointer(fld.Type())
			}
		} else if !curPtr {
			cur.Typ = fld.Type()
		}
	}
	// whatever reference a field holds was allocated before now
	if e.now != "" && !curPtr && cur.Typ != nil && len(cur.L) > 0 {
		ref := ""
		switch cur.Typ.Underlying().(type) {
		case *types.Pointer, *types.Map, *types.Chan, *types.Slice:
			ref = cur.L[0]
		}
		if ref != "" && !strings.Contains(ref, "bv.") && len(ref) < 400 {
			key := "birthfact:" + ref + "<" + e.now
			if !vc.specDone[key] {
				vc.specDone[key] = true
				r := e.reach
				if r == "" {
					r = "true"
				}
				vc.assume(r, "(< (birth "+ref+") "+e.now+")")
			}
		}
	}
	return cur
}

func (e *Env) pkgOf(T types.Type) *types.Package {
	if n, ok := types.Unalias(T).(*types.Named); ok && n.Obj().Pkg() != nil {
		return n.Obj().Pkg()
	}
	return e.pkg
}

func (e *Env) evalSelector(t *ast.SelectorExpr) Val {
	vc := e.vc
	if id, ok := t.X.(*ast.Ident); ok {
		if _, bound := e.lookupIdentQuiet(id.Name); !bound {
			if len(vc.P.PkgsByName[id.Name]) > 0 {
				if o, p := vc.P.lookupMember(id.Name, t.Sel.Name); o != nil {
					switch oo := o.(type) {
					case *types.Const:
						return e.constOf(oo)
					case *types.Var:
						return e.globalVar(p, oo)
					}
				}
				e.errf("unknown package member %s.%s", id.Name, t.Sel.Name)
				return intVal("0")
			}
		}
	}
	v := e.evalGo(t.X)
	defer func() {}()
	// slice header pseudo-fields
	if v.Typ != nil {
		if _, ok := v.Typ.Underlying().(*types.Slice); ok {
			switch t.Sel.Name {
			case "base":
				return intVal(v.L[0])
			case "off":
				return intVal(v.L[1])
			}
		}
		_, isIface := v.Typ.Underlying().(*types.Interface)
		if isIface || isAtomicValue(v.Typ) {
			switch t.Sel.Name {
			case "dyntype":
				return intVal(v.L[0])
			case "payload":
				return intVal(v.L[1])
			}
		}
	}
	return e.assumeTyped(e.selectField(v, t.Sel.Name, exprStr(t)))
}

func (e *Env) lookupIdentQuiet(name string) (Val, bool) {
	if _, ok := e.refs[name]; ok {
		return Val{}, true
	}
	if _, ok := e.vars[name]; ok {
		return Val{}, true
	}
	if e.fr != nil {
		for _, p := range e.fr.fn.Params {
			if p.Name() == name {
				return Val{}, true
			}
		}
		for _, p := range e.fr.fn.FreeVars {
			if p.Name() == name {
				return Val{}, true
			}
		}
		if _, ok := e.fr.names[name]; ok {
			return Val{}, true
		}
	}
	return Val{}, false
}

func (e *Env) evalIndex(t *ast.IndexExpr) Val {
	return e.assumeTyped(e.evalIndex0(t))
}

func (e *Env) evalIndex0(t *ast.IndexExpr) Val {
	vc := e.vc
	x := e.evalGo(t.X)
	i := e.evalGo(t.Index)
	if x.Typ == nil {
		// spec-level sequence
		if vc.sortOf(x, 0) == "(Array Int Int)" {
			return intVal("(select " + x.T() + " " + i.T() + ")")
		}
		if vc.sortOf(x, 0) == "(Array Int Bool)" {
			return boolVal("(select " + x.T() + " " + i.T() + ")")
		}
		e.errf("index of non-sequence %s", exprStr(t.X))
		return intVal("0")
	}
	switch u := x.Typ.Underlying().(type) {
	case *types.Slice:
		et := u.Elem()
		idx := "(+ " + x.L[1] + " " + i.T() + ")"
		if vc.flatStruct(et) {
			return Val{Typ: types.NewPointer(et), L: []string{vc.elemRef(et, x.L[0], idx)}}
		}
		return vc.loadLoc(e.heap, &Loc{Fam: "E_" + vc.typeName(et), Idx: []string{x.L[0], idx}, Typ: et})
	case *types.Array:
		out := Val{Typ: u.Elem()}
		for _, l := range x.L {
			out.L = append(out.L, "(select "+l+" "+i.T()+")")
		}
		return out
	case *types.Pointer:
		if at, ok := u.Elem().Underlying().(*types.Array); ok {
			et := at.Elem()
			return vc.loadLoc(e.heap, &Loc{Fam: "E_" + vc.typeName(et), Idx: []string{x.L[0], i.T()}, Typ: et})
		}
	case *types.Map:
		fr := e.fr
		if fr == nil {
			fr = &Frame{vc: vc}
		}
		has, val := fr.mapRead(e.heap, u, x.T(), vc.mapKey(u.Key(), Val{Typ: u.Key(), L: i.L}))
		// a nil map has no entries: indexing it yields the zero value
		z := vc.zeroVal(u.Elem())
		ok := and(not(eq(x.T(), "0")), has)
		out := Val{Typ: u.Elem()}
		for k := range val.L {
			out.L = append(out.L, ite(ok, val.L[k], z.L[k]))
		}
		return out
	case *types.Basic:
		if isStringT(x.Typ) {
			return intVal("(strbyte " + x.T() + " " + i.T() + ")")
		}
	}
	e.errf("cannot index %s", exprStr(t.X))
	return intVal("0")
}

func (e *Env) evalCall(t *ast.CallExpr) Val {
	vc := e.vc
	name := ""
	switch f := t.Fun.(type) {
	case *ast.Ident:
		name = f.Name
	case *ast.SelectorExpr:
		name = exprStr(f)
	}
	arg := func(i int) Val { return e.evalGo(t.Args[i]) }
	switch name {
	case "old":
		n := *e
		n.heap = e.old
		n.inOld = true
		if e.old == nil {
			e.errf("old() used where no pre-state exists")
			n.heap = e.heap
		}
		// old(x) for locals at loop headers is not special: variables are SSA values
		return n.evalGo(t.Args[0])
	case "ite":
		c, a, b := arg(0), arg(1), arg(2)
		out := Val{Typ: a.Typ, S: a.S}
		for i := range a.L {
			out.L = append(out.L, ite(c.T(), a.L[i], b.L[i]))
		}
		return out
	case "min":
		return intVal("(imin " + arg(0).T() + " " + arg(1).T() + ")")
	case "max":
		return intVal("(imax " + arg(0).T() + " " + arg(1).T() + ")")
	case "len", "cap":
		v := arg(0)
		if v.Typ == nil {
			e.errf("len of untyped value")
			return intVal("0")
		}
		switch u := v.Typ.Underlying().(type) {
		case *types.Slice:
			if name == "len" {
				return intVal(v.L[2])
			}
			return intVal(v.L[3])
		case *types.Basic:
			return intVal("(strlen " + v.T() + ")")
		case *types.Array:
			return intVal(fmt.Sprint(u.Len()))
		case *types.Map:
			fr := e.fr
			if fr == nil {
				fr = &Frame{vc: vc}
			}
			return intVal(fr.mapLen(e.heap, u, v.T()))
		case *types.Pointer:
			if at, ok := u.Elem().Underlying().(*types.Array); ok {
				return intVal(fmt.Sprint(at.Len()))
			}
		}
		e.errf("len/cap of %s", vc.typeName(v.Typ))
		return intVal("0")
	case "elems":
		// elems(s): the backing array of slice s as a sequence indexed by absolute position (s.off + i)
		v := arg(0)
		if v.Typ != nil {
			if st, ok := v.Typ.Underlying().(*types.Slice); ok && !vc.flatStruct(st.Elem()) {
				sh := vc.shape(st.Elem())
				if len(sh) == 1 {
					fam := "E_" + vc.typeName(st.Elem())
					vc.family(fam, famSortFor(sh[0].Sort, 2))
					return Val{L: []string{"(select " + vc.lookup(e.heap, fam) + " " + v.L[0] + ")"}, S: []string{"(Array Int " + sh[0].Sort + ")"}}
				}
			}
		}
		e.errf("elems() needs a slice of scalar elements")
		return intVal("0")
	case "elemsT", "elemsV":
		// backing arrays of a slice of interface values: dynamic-type leaf / payload leaf
		v := arg(0)
		if v.Typ != nil {
			if st, ok := v.Typ.Underlying().(*types.Slice); ok {
				if _, isI := st.Elem().Underlying().(*types.Interface); isI {
					suf := "#t"
					if name == "elemsV" {
						suf = "#v"
					}
					fam := "E_" + vc.typeName(st.Elem()) + suf
					vc.family(fam, famSortFor("Int", 2))
					return Val{L: []string{"(select " + vc.lookup(e.heap, fam) + " " + v.L[0] + ")"}, S: []string{"(Array Int Int)"}}
				}
			}
		}
		e.errf("%s() needs a slice of interface values", name)
		return intVal("0")
	case "has":
		m, k := arg(0), arg(1)
		if m.Typ != nil {
			if mt, ok := m.Typ.Underlying().(*types.Map); ok {
				fr := e.fr
				if fr == nil {
					fr = &Frame{vc: vc}
				}
				has, _ := fr.mapRead(e.heap, mt, m.T(), vc.mapKey(mt.Key(), Val{Typ: mt.Key(), L: k.L}))
				if os.Getenv("GOVC_DEBUG_INV") != "" {
					fmt.Fprintf(os.Stderr, "HAS m=%s has=%s\n", m.T(), has)
				}
				return boolVal(and(not(eq(m.T(), "0")), has))
			}
		}
		e.errf("has() on non-map")
		return boolVal("false")
	case "istype":
		v := arg(0)
		T := e.typeFromExpr(t.Args[1])
		if T == nil {
			e.errf("istype: unknown type %s", exprStr(t.Args[1]))
			return boolVal("false")
		}
		return boolVal(eq(v.L[0], vc.typeTag(T)))
	case "unchanged", "unchangedExcept":
		// unchangedExcept("pattern", ...): every heap family that may differ between the
		// pre-state and the current state is equal on all pre-existing objects, except the
		// families matching one of the patterns.
		if e.old == nil {
			e.errf("unchanged() used where no pre-state exists")
			return boolVal("true")
		}
		except := map[string]bool{}
		for _, a := range t.Args {
			if bl, ok := a.(*ast.BasicLit); ok && bl.Kind == token.STRING {
				p, _ := strconv.Unquote(bl.Value)
				except[p] = true
			} else {
				e.errf("unchangedExcept takes string patterns")
			}
		}
		if e.pol < 0 && e.frames != nil {
			// assumed, not proved: install a lazy frame instead of one quantified fact per family
			u := vc.fresh("unchanged", "Bool")
			*e.frames = append(*e.frames, frameReq{cond: u, except: except})
			return boolVal(u)
		}
		return boolVal(vc.unchangedFormula(e.old, e.heap, e.oldNow(), except))
	case "store":
		// store(seq, i, v): functional update of a ghost sequence
		a, i, v := arg(0), arg(1), arg(2)
		return Val{L: []string{"(store " + a.T() + " " + i.T() + " " + v.T() + ")"}, S: []string{vc.sortOf(a, 0)}}
	case "strOf":
		// strOf(b): the string with the bytes of slice b (same term as the conversion string(b))
		v := arg(0)
		if v.Typ == nil || len(v.L) != 4 {
			e.errf("strOf needs a byte slice")
			return intVal("0")
		}
		vc.family("E_uint8", famSortFor("Int", 2))
		f := vc.declFun("str_of_bytes", []string{"(Array Int Int)", "Int", "Int"}, "Int")
		return Val{Typ: types.Typ[types.String], L: []string{"(" + f + " (select " + vc.lookup(e.heap, "E_uint8") + " " + v.L[0] + ") " + v.L[1] + " " + v.L[2] + ")"}}
	case "strBytes":
		f := vc.declFun("bytes_of_str", []string{"Int"}, "(Array Int Int)")
		return Val{L: []string{"(" + f + " " + arg(0).T() + ")"}, S: []string{"(Array Int Int)"}}
	case "unbox":
		// unbox(x, T): the value of dynamic type T carried by interface x
		v := arg(0)
		T := e.typeFromExpr(t.Args[1])
		if T == nil || len(v.L) != 2 {
			e.errf("unbox: bad arguments %s", exprStr(t))
			return intVal("0")
		}
		fr := e.fr
		if fr == nil {
			fr = &Frame{vc: vc}
		}
		out := fr.unpayload(v.L[1], T)
		out.Typ = T
		return out
	case "cast":
		// cast(x, T): reinterpret an Int (reference) as a value of pointer type T
		v := arg(0)
		T := e.typeFromExpr(t.Args[1])
		if T == nil {
			e.errf("cast: unknown type %s", exprStr(t.Args[1]))
			return intVal("0")
		}
		return Val{Typ: T, L: []string{v.L[len(v.L)-1]}}
	case "closed":
		v := arg(0)
		vc.family("Chan.closed", "(Array Int Bool)")
		return boolVal("(select " + vc.lookup(e.heap, "Chan.closed") + " " + v.T() + ")")
	case "ranged":
		// ranged(k), in an invariant of a `for k := range m` loop: key k was already yielded by this range
		if e.loopHdr == nil || e.fr == nil {
			e.errf("ranged() is only meaningful in the invariant of a map range loop")
			return boolVal("false")
		}
		for _, in := range e.loopHdr.Instrs {
			if nx, ok := in.(*ssa.Next); ok && !nx.IsString {
				rng := nx.Iter.(*ssa.Range)
				mt := rng.X.Type().Underlying().(*types.Map)
				k := arg(0)
				return boolVal("(select " + vc.lookup(e.heap, e.fr.rvFam(rng)) + " " + vc.mapKey(mt.Key(), Val{Typ: mt.Key(), L: k.L}) + ")")
			}
		}
		e.errf("ranged(): the loop is not a map range")
		return boolVal("false")
	case "fresh":
		// fresh(p): allocated during this call
		v := arg(0)
		return boolVal("(>= (birth " + v.L[0] + ") " + e.oldNow() + ")")
	case "int", "uint64", "uint32", "uint16", "uint8", "byte", "int64", "int32":
		return intVal(arg(0).T())
	case "str":
		return arg(0)
	}
	if sf, ok := vc.S.Funcs[name]; ok && sf.Macro {
		if len(t.Args) != len(sf.Params) {
			e.errf("macro %s: wrong number of arguments", name)
			return intVal("0")
		}
		n := *e
		n.vars = map[string]Val{}
		for k, x := range e.vars {
			n.vars[k] = x
		}
		for i, p := range sf.Params {
			a := arg(i)
			if T := e.resolveType(p.Type); T != nil && a.Typ == nil {
				a.Typ = T
			}
			n.vars[p.Name] = a
		}
		n.what = e.what + " (macro " + name + ")"
		return n.eval(sf.Body)
	}
	if sf, ok := vc.S.Funcs[name]; ok {
		fn := vc.specFunc(sf, e)
		if len(t.Args) != len(sf.Params) {
			e.errf("spec function %s: wrong number of arguments", name)
			return intVal("0")
		}
		var as []string
		for i := range t.Args {
			a := arg(i)
			as = append(as, a.T())
		}
		out := Val{L: []string{"(" + fn + " " + joinSp(as) + ")"}, S: []string{specSort(sf.Ret)}}
		if len(as) == 0 {
			out.L[0] = fn
		}
		return out
	}
	if sel, ok := t.Fun.(*ast.SelectorExpr); ok {
		if v, ok := e.pureMethodCall(sel, t.Args); ok {
			return v
		}
	}
	if v, ok := e.pureFuncCall(name, t.Args); ok {
		return v
	}
	e.errf("unknown function %q in contract", name)
	return intVal("0")
}

var pureCallMemo = map[*VC]map[string]Val{}

// pureMethodCall: x.m(args) in a contract where m has a `pure` contract: the
// value is a fresh symbol constrained by the callee's ensures (under its
// requires), evaluated in the current heap of the environment.
func (e *Env) pureMethodCall(sel *ast.SelectorExpr, argExprs []ast.Expr) (Val, bool) {
	vc := e.vc
	recv := e.evalGo(sel.X)
	if recv.Typ == nil {
		return Val{}, false
	}
	var ct *Contract
	var sig *types.Signature
	var names []string
	var key string
	T := recv.Typ
	if _, isI := T.Underlying().(*types.Interface); isI {
		key = "iface " + vc.typeName(T) + "." + sel.Sel.Name
		ct = vc.S.Contracts[key]
		obj, _, _ := types.LookupFieldOrMethod(T, true, e.pkgOf(T), sel.Sel.Name)
		if f, ok := obj.(*types.Func); ok {
			sig = f.Type().(*types.Signature)
		}
		if ct != nil {
			names = ct.Params
		}
	} else {
		base := T
		ptr := ""
		if pt, ok := T.Underlying().(*types.Pointer); ok {
			base = pt.Elem()
			ptr = "*"
		}
		n, ok := types.Unalias(base).(*types.Named)
		if !ok || n.Obj().Pkg() == nil {
			return Val{}, false
		}
		for _, k := range []string{n.Obj().Pkg().Name() + ".(" + ptr + n.Obj().Name() + ")." + sel.Sel.Name, n.Obj().Pkg().Name() + ".(" + n.Obj().Name() + ")." + sel.Sel.Name, n.Obj().Pkg().Name() + ".(*" + n.Obj().Name() + ")." + sel.Sel.Name} {
			if c := vc.S.Contracts[k]; c != nil {
				ct, key = c, k
				break
			}
		}
		if ct != nil {
			if fn := vc.P.Funcs[key]; fn != nil {
				sig = fn.Signature
				names = paramNames(fn)
			}
			if len(ct.Params) > 0 {
				names = ct.Params
			}
		}
	}
	if ct == nil || sig == nil {
		return Val{}, false
	}
	if !ct.Pure {
		e.errf("method %s used in a contract is not declared pure", key)
		return Val{}, true
	}
	all := []Val{recv}
	for _, a := range argExprs {
		all = append(all, e.evalGo(a))
	}
	for _, a := range all {
		for _, l := range a.L {
			if strings.Contains(l, "bv.") {
				e.errf("pure method call %s on a bound variable is not supported", key)
				return Val{}, true
			}
		}
	}
	rt := resultType(sig)
	res := vc.pureResult(key, e.heap, all, rt)
	mk := key + "|" + joinSp(res.L)
	if pureCallMemo[vc] == nil {
		pureCallMemo[vc] = map[string]Val{}
	}
	if v, ok := pureCallMemo[vc][mk]; ok {
		return v, true
	}
	vc.assert(vc.typeFacts(res))
	ce := &Env{vc: vc, vars: map[string]Val{}, heap: e.heap, old: e.heap, now: e.now, pkg: e.pkg, what: "pure call of " + key + " in " + e.what, reach: e.reach}
	if strings.HasPrefix(key, "iface ") || true {
		// contract package
		k := strings.TrimPrefix(key, "iface ")
		if i := strings.Index(k, "."); i > 0 {
			if p := vc.P.PkgByName[k[:i]]; p != nil {
				ce.pkg = p
			}
		}
	}
	for i, n := range names {
		if i < len(all) {
			ce.vars[n] = all[i]
		}
	}
	if len(names) == 0 {
		ce.vars["this"] = recv
	}
	var reqs, enss []string
	for _, r := range ct.Requires {
		reqs = append(reqs, ce.evalGoal(r.E).T())
	}
	bindResults(vc, ce, sig, ct.Results, res)
	for _, en := range ct.Ensures {
		enss = append(enss, ce.evalAssume(en.E).T())
	}
	vc.assert(imp(and(reqs...), and(enss...)))
	out := res
	if sig.Results().Len() == 1 {
		out.Typ = sig.Results().At(0).Type()
	}
	pureCallMemo[vc][mk] = out
	return out, true
}

func (e *Env) oldNow() string {
	if e.oldNowT != "" {
		return e.oldNowT
	}
	if e.fr != nil && e.fr.entry != nil {
		return e.fr.entry.now
	}
	return "0"
}

// specFunc declares/defines a spec function once and returns its SMT name.
func (vc *VC) specFunc(sf *SpecFunc, from *Env) string {
	n := q("spec." + sf.Name)
	if vc.specDone["specfunc:"+sf.Name] {
		return n
	}
	vc.specDone["specfunc:"+sf.Name] = true
	var ps, srt []string
	env := &Env{vc: vc, vars: map[string]Val{}, pkg: from.pkg, what: "spec func " + sf.Name}
	env.heap = from.heap
	for _, p := range sf.Params {
		sym := q("p." + p.Name)
		s := specSort(p.Type)
		ps = append(ps, "("+sym+" "+s+")")
		srt = append(srt, s)
		env.vars[p.Name] = Val{L: []string{sym}, S: []string{s}}
	}
	if sf.Body == nil {
		vc.declared[n] = true
		vc.emit("(declare-fun " + n + " (" + strings.Join(srt, " ") + ") " + specSort(sf.Ret) + ")")
		return n
	}
	body := env.eval(sf.Body).T()
	vc.declared[n] = true
	vc.emit("(define-fun " + n + " (" + strings.Join(ps, " ") + ") " + specSort(sf.Ret) + " " + body + ")")
	return n
}

// unchangedFormula: conjunction, over every family possibly changed between
// heaps a and b, of equality on objects that existed at time oldNow.
func (vc *VC) unchangedFormula(a, b *Heap, oldNow string, except map[string]bool) string {
	acc := map[string]bool{}
	if !vc.changedBetween(a, b, acc, map[*Heap]bool{}) {
		acc["*"] = true
	}
	vc.registerAllFamilies()
	var fams []string
	for f := range vc.famSort {
		if strings.HasPrefix(f, "GV_") {
			continue // ghost variables of the function under verification
		}
		if inSet(acc, f) && !inSet(except, f) {
			fams = append(fams, f)
		}
	}
	sortStrings(fams)
	var cs []string
	for _, f := range fams {
		x, y := vc.lookup(a, f), vc.lookup(b, f)
		if x == y {
			continue
		}
		if !strings.HasPrefix(vc.famSort[f], "(Array Int ") {
			cs = append(cs, eq(x, y))
			continue
		}
		v := q(vc.freshName("bv.u"))
		cs = append(cs, "(forall (("+v+" Int)) (! (=> (< (birth "+v+") "+oldNow+") (= (select "+y+" "+v+") (select "+x+" "+v+"))) :pattern ((select "+y+" "+v+"))))")
	}
	return and(cs...)
}

// registerAllFamilies declares (names and sorts of) the heap families of every
// struct type of the repository, so that wildcard havocs and frame formulas
// range over all of them, not only over those mentioned so far.
func (vc *VC) registerAllFamilies() {
	if vc.specDone["allfams"] {
		return
	}
	vc.specDone["allfams"] = true
	seen := map[string]bool{}
	var visit func(t types.Type)
	visit = func(t types.Type) {
		n := vc.typeName(t)
		if seen[n] {
			return
		}
		seen[n] = true
		switch u := t.Underlying().(type) {
		case *types.Pointer:
			visit(u.Elem())
		case *types.Slice:
			et := u.Elem()
			if !vc.flatStruct(et) {
				if _, isArr := et.Underlying().(*types.Array); !isArr {
					for _, l := range vc.shape(et) {
						vc.family("E_"+vc.typeName(et)+l.Suffix, famSortFor(l.Sort, 2))
					}
				}
			}
			visit(et)
		case *types.Array:
			et := u.Elem()
			if !vc.flatStruct(et) {
				if _, isArr := et.Underlying().(*types.Array); !isArr {
					for _, l := range vc.shape(et) {
						vc.family("E_"+vc.typeName(et)+l.Suffix, famSortFor(l.Sort, 2))
					}
				}
			}
			visit(et)
		case *types.Map:
			vc.mapFamilies(u)
			visit(u.Key())
			visit(u.Elem())
		case *types.Struct:
			if !vc.flatStruct(t) {
				return
			}
			for i := 0; i < u.NumFields(); i++ {
				ft := u.Field(i).Type()
				if vc.flatStruct(ft) {
					visit(ft)
					continue
				}
				if _, ok := ft.Underlying().(*types.Array); ok {
					visit(ft)
					continue
				}
				for _, l := range vc.shape(ft) {
					vc.family(vc.fieldFam(t, u.Field(i).Name())+l.Suffix, famSortFor(l.Sort, 1))
				}
				visit(ft)
			}
		}
	}
	var names []string
	for n := range vc.P.TypesByName {
		names = append(names, n)
	}
	sortStrings(names)
	for _, n := range names {
		visit(vc.P.TypesByName[n])
	}
	vc.family("Chan.closed", "(Array Int Bool)")
	for k, gf := range vc.S.Ghosts {
		i := strings.LastIndex(k, ".")
		vc.family("H_"+k[:i]+"."+gf.Name, "(Array Int "+specSort(gf.GType)+")")
	}
}

type frameReq struct {
	cond   string
	except map[string]bool
}


// pureFuncCall: a package-level function of the contract's package that has a `pure` contract, used in a
// specification: its result is the same uninterpreted function of (heap, arguments) that call sites use,
// constrained by the function's own postconditions.
func (e *Env) pureFuncCall(name string, argExprs []ast.Expr) (Val, bool) {
	vc := e.vc
	if e.pkg == nil || name == "" {
		return Val{}, false
	}
	key := e.pkg.Name() + "." + name
	ct := vc.S.Contracts[key]
	fn := vc.P.Funcs[key]
	if ct == nil || fn == nil {
		return Val{}, false
	}
	if !ct.Pure {
		e.errf("function %s used in a contract is not declared pure", key)
		return Val{}, true
	}
	var all []Val
	for _, a := range argExprs {
		all = append(all, e.evalGo(a))
	}
	for _, a := range all {
		for _, l := range a.L {
			if strings.Contains(l, "bv.") {
				e.errf("pure call %s on a bound variable is not supported", key)
				return Val{}, true
			}
		}
	}
	sig := fn.Signature
	rt := resultType(sig)
	res := vc.pureResult(key, e.heap, all, rt)
	mk := key + "|" + joinSp(res.L)
	if pureCallMemo[vc] == nil {
		pureCallMemo[vc] = map[string]Val{}
	}
	if v, ok := pureCallMemo[vc][mk]; ok {
		return v, true
	}
	vc.assert(vc.typeFacts(res))
	ce := &Env{vc: vc, vars: map[string]Val{}, heap: e.heap, old: e.heap, now: e.now, pkg: e.pkg, what: "pure call of " + key + " in " + e.what, reach: e.reach}
	names := paramNames(fn)
	if len(ct.Params) > 0 {
		names = ct.Params
	}
	for i, n := range names {
		if i < len(all) {
			ce.vars[n] = all[i]
		}
	}
	var reqs, enss []string
	for _, r := range ct.Requires {
		reqs = append(reqs, ce.evalGoal(r.E).T())
	}
	bindResults(vc, ce, sig, ct.Results, res)
	for _, en := range ct.Ensures {
		enss = append(enss, ce.evalAssume(en.E).T())
	}
	vc.assert(imp(and(reqs...), and(enss...)))
	out := res
	if sig.Results().Len() == 1 {
		out.Typ = sig.Results().At(0).Type()
	}
	pureCallMemo[vc][mk] = out
	return out, true
}
