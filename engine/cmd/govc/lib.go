package main

// lib.go: built-in functions and engine-level models of a few library
// functions whose semantics the contract language cannot express (they operate
// on locations or have exact arithmetic meaning). Everything here is part of
// the trusted base and is listed in the evidence.

import (
	"fmt"
	"go/token"
	"go/types"
	"strings"

	"golang.org/x/tools/go/ssa"
)

func (fr *Frame) builtin(b *ssa.Builtin, c *ssa.CallCommon, args []Val, rt types.Type, pos token.Pos) Val {
	vc := fr.vc
	switch b.Name() {
	case "len", "cap":
		v := args[0]
		switch u := c.Args[0].Type().Underlying().(type) {
		case *types.Slice:
			if b.Name() == "len" {
				return Val{Typ: rt, L: []string{v.L[2]}}
			}
			return Val{Typ: rt, L: []string{v.L[3]}}
		case *types.Basic:
			return Val{Typ: rt, L: []string{"(strlen " + v.T() + ")"}}
		case *types.Map:
			return Val{Typ: rt, L: []string{fr.mapLen(fr.cur.heap, u, v.T())}}
		case *types.Array:
			return Val{Typ: rt, L: []string{fmt.Sprint(u.Len())}}
		case *types.Pointer:
			return Val{Typ: rt, L: []string{fmt.Sprint(u.Elem().Underlying().(*types.Array).Len())}}
		case *types.Chan:
			r := vc.fresh("chanlen", "Int")
			vc.assert("(>= " + r + " 0)")
			return Val{Typ: rt, L: []string{r}}
		}
	case "append":
		return fr.appendBuiltin(c, args, rt)
	case "copy":
		return fr.copyBuiltin(c, args, rt)
	case "delete":
		mt := c.Args[0].Type().Underlying().(*types.Map)
		fr.mapDelete(mt, args[0].T(), vc.mapKey(mt.Key(), args[1]))
		return Val{Typ: rt}
	case "close":
		vc.family("Chan.closed", "(Array Int Bool)")
		cl := vc.lookup(fr.cur.heap, "Chan.closed")
		if fr.wantSafety("close") {
			fr.oblige("safety-closeclosed", fmt.Sprintf("L%d", fr.pos(pos).Line), and(not("(select "+cl+" "+args[0].T()+")"), not(eq(args[0].T(), "0"))), nil, pos, "close of closed/nil channel")
		}
		fr.cur.heap = vc.heapSet(fr.cur.heap, "Chan.closed", vc.define("Chan.closed", "(Array Int Bool)", "(store "+cl+" "+args[0].T()+" true)"))
		return Val{Typ: rt}
	case "min", "max":
		f := "imin"
		if b.Name() == "max" {
			f = "imax"
		}
		t := args[0].T()
		for _, a := range args[1:] {
			t = "(" + f + " " + t + " " + a.T() + ")"
		}
		return Val{Typ: rt, L: []string{t}}
	case "panic":
		if fr.wantSafety("panic") {
			fr.oblige("safety-panic", fmt.Sprintf("L%d", fr.pos(pos).Line), "false", nil, pos, "panic reachable")
		}
		vc.assume(fr.curR, "false")
		return Val{Typ: rt}
	case "print", "println", "recover", "clear":
		if b.Name() == "clear" {
			return fr.unknownCall("clear()", args, rt, true)
		}
		return vc.zeroVal(rt)
	case "ssa:wrapnilchk":
		return args[0]
	}
	vc.errorf("%s: unsupported builtin %s", fr.fn, b.Name())
	return vc.freshVal("builtin", rt)
}

func (fr *Frame) appendBuiltin(c *ssa.CallCommon, args []Val, rt types.Type) Val {
	vc := fr.vc
	s, t := args[0], args[1]
	st := rt.Underlying().(*types.Slice)
	et := st.Elem()
	if isStringT(c.Args[1].Type()) {
		// append([]byte, string...)
		return fr.unknownAppend(s, "(strlen "+t.T()+")", rt, et)
	}
	// general case: new length = len(s)+len(t). If it fits the capacity the
	// backing array is reused, otherwise a fresh one is allocated and the
	// prefix copied. Elements: result[i] = s[i] for i < len(s), t[i-len(s)] after.
	n := "(+ " + s.L[2] + " " + t.L[2] + ")"
	fits := vc.define("append.fits", "Bool", "(and (<= "+n+" "+s.L[3]+") (not (= "+s.L[0]+" 0)))")
	fresh := fr.freshRef("append.base")
	newcap := vc.fresh("append.cap", "Int")
	vc.assert("(>= " + newcap + " " + n + ")")
	base := ite(fits, s.L[0], fresh)
	// a relocated copy keeps the offset of the original within its (fresh) backing array: offsets are not
	// observable by Go code, and an unconditional offset keeps the copy facts in index-normal form
	off := s.L[1]
	capv := ite(fits, s.L[3], newcap)
	res := Val{Typ: rt, L: []string{vc.define("append.b", "Int", base), vc.define("append.o", "Int", off), vc.define("append.l", "Int", n), vc.define("append.c", "Int", capv)}}
	if vc.flatStruct(et) {
		// struct elements: field heaps indexed by elemref; copy semantics need quantifiers.
		// Model only the single-element append exactly (by far the common case).
		if k, ok := appendCount(c); ok && k == 1 {
			// in place: elemref(base, off+len) fields := t[0] fields
			src := vc.elemRef(et, t.L[0], t.L[1])
			v := vc.loadStruct(fr.cur.heap, et, src)
			dst := vc.elemRef(et, res.L[0], "(+ "+res.L[1]+" "+s.L[2]+")")
			hFit := vc.storeStruct(fr.cur.heap, et, dst, v)
			// when relocated, the prefix is copied: stated by a quantified fact per field family
			fr.cur.heap = hFit
			fr.relocFacts(et, s, res, fits)
			return res
		}
		vc.note("append of several struct elements: element contents abstracted")
		fr.cur.heap = vc.heapHavoc(fr.cur.heap, map[string]bool{"H_" + vc.typeName(et) + ".*": true})
		return res
	}
	for _, l := range vc.shape(et) {
		fam := "E_" + vc.typeName(et) + l.Suffix
		vc.family(fam, famSortFor(l.Sort, 2))
		cur := vc.lookup(fr.cur.heap, fam)
		if k, ok := appendCount(c); ok && k >= 0 && k <= 4 {
			// exact: store the k appended elements one by one
			inner := ite(fits, "(select "+cur+" "+s.L[0]+")", fr.shifted(cur, s, l.Sort))
			for j := 0; j < k; j++ {
				elem := "(select (select " + cur + " " + t.L[0] + ") (+ " + t.L[1] + " " + fmt.Sprint(j) + "))"
				inner = "(store " + inner + " (+ " + res.L[1] + " " + s.L[2] + " " + fmt.Sprint(j) + ") " + elem + ")"
			}
			fr.cur.heap = vc.heapSet(fr.cur.heap, fam, vc.define(fam, vc.famSort[fam], "(store "+cur+" "+res.L[0]+" "+inner+")"))
			continue
		}
		// variable count: new contents described by a quantified fact
		na := vc.fresh(fam, vc.famSort[fam])
		j := q(vc.freshName("j"))
		newArr := "(select " + na + " " + res.L[0] + ")"
		vc.assume(fr.curR, "(forall (("+j+" Int)) (! (=> (and (<= 0 "+j+") (< "+j+" "+s.L[2]+")) (= (select "+newArr+" (+ "+res.L[1]+" "+j+")) (select (select "+cur+" "+s.L[0]+") (+ "+s.L[1]+" "+j+")))) :pattern ((select "+newArr+" (+ "+res.L[1]+" "+j+")))))")
		vc.assume(fr.curR, "(forall (("+j+" Int)) (! (=> (and (<= 0 "+j+") (< "+j+" "+t.L[2]+")) (= (select "+newArr+" (+ "+res.L[1]+" "+s.L[2]+" "+j+")) (select (select "+cur+" "+t.L[0]+") (+ "+t.L[1]+" "+j+")))) :pattern ((select "+newArr+" (+ "+res.L[1]+" "+s.L[2]+" "+j+")))))")
		// other bases unchanged
		b := q(vc.freshName("b"))
		vc.assume(fr.curR, "(forall (("+b+" Int)) (! (=> (not (= "+b+" "+res.L[0]+")) (= (select "+na+" "+b+") (select "+cur+" "+b+"))) :pattern ((select "+na+" "+b+"))))")
		fr.cur.heap = vc.heapSet(fr.cur.heap, fam, na)
	}
	return res
}

// shifted: contents of a freshly allocated backing array holding a copy of s at offset 0.
func (fr *Frame) shifted(cur string, s Val, leafSort string) string {
	vc := fr.vc
	a := vc.fresh("append.copy", "(Array Int "+leafSort+")")
	j := q(vc.freshName("j"))
	vc.assume(fr.curR, "(forall (("+j+" Int)) (! (=> (and (<= "+s.L[1]+" "+j+") (< "+j+" (+ "+s.L[1]+" "+s.L[2]+"))) (= (select "+a+" "+j+") (select (select "+cur+" "+s.L[0]+") "+j+"))) :pattern ((select "+a+" "+j+"))))")
	return a
}

// relocFacts: for struct-element slices, when append relocates, every field of
// the copied prefix elements equals the old element's field.
func (fr *Frame) relocFacts(et types.Type, s, res Val, fits string) {
	vc := fr.vc
	st := et.Underlying().(*types.Struct)
	f := vc.declFun("elemref_"+vc.typeName(et), []string{"Int", "Int"}, "Int")
	for i := 0; i < st.NumFields(); i++ {
		ft := st.Field(i).Type()
		if vc.flatStruct(ft) {
			vc.note("append relocation of nested struct elements not modelled")
			continue
		}
		if _, ok := ft.Underlying().(*types.Array); ok {
			continue
		}
		for _, l := range vc.shape(ft) {
			fam := vc.fieldFam(et, st.Field(i).Name()) + l.Suffix
			vc.family(fam, famSortFor(l.Sort, 1))
			h := vc.lookup(fr.cur.heap, fam)
			j := q(vc.freshName("j"))
			vc.assume(fr.curR, "(=> (not "+fits+") (forall (("+j+" Int)) (! (=> (and (<= "+s.L[1]+" "+j+") (< "+j+" (+ "+s.L[1]+" "+s.L[2]+"))) (= (select "+h+" ("+f+" "+res.L[0]+" "+j+")) (select "+h+" ("+f+" "+s.L[0]+" "+j+")))) :pattern ((select "+h+" ("+f+" "+res.L[0]+" "+j+"))))))")
		}
	}
}

// appendCount: number of appended elements when statically known (varargs literal).
func appendCount(c *ssa.CallCommon) (int, bool) {
	sl, ok := c.Args[1].(*ssa.Slice)
	if !ok {
		if k, ok := c.Args[1].(*ssa.Const); ok && k.Value == nil {
			return 0, true
		}
		return 0, false
	}
	al, ok := sl.X.(*ssa.Alloc)
	if !ok || sl.Low != nil || sl.High != nil {
		return 0, false
	}
	at, ok := al.Type().(*types.Pointer).Elem().Underlying().(*types.Array)
	if !ok {
		return 0, false
	}
	return int(at.Len()), true
}

func (fr *Frame) unknownAppend(s Val, n string, rt types.Type, et types.Type) Val {
	vc := fr.vc
	res := vc.freshVal("append", rt)
	fr.typed(res)
	vc.assume(fr.curR, "(= "+res.L[2]+" (+ "+s.L[2]+" "+n+"))")
	vc.assume(fr.curR, "(> "+res.L[0]+" 0)")
	fr.cur.heap = vc.heapHavoc(fr.cur.heap, map[string]bool{"E_" + vc.typeName(et) + "*": true})
	return res
}

func (fr *Frame) copyBuiltin(c *ssa.CallCommon, args []Val, rt types.Type) Val {
	vc := fr.vc
	d, s := args[0], args[1]
	var n string
	srcIsString := isStringT(c.Args[1].Type())
	if srcIsString {
		n = "(imin " + d.L[2] + " (strlen " + s.T() + "))"
	} else {
		n = "(imin " + d.L[2] + " " + s.L[2] + ")"
	}
	n = vc.define("copy.n", "Int", n)
	et := c.Args[0].Type().Underlying().(*types.Slice).Elem()
	if vc.flatStruct(et) {
		st := et.Underlying().(*types.Struct)
		simple := true
		for i := 0; i < st.NumFields(); i++ {
			ft := st.Field(i).Type()
			if vc.flatStruct(ft) {
				simple = false
			}
			if _, ok := ft.Underlying().(*types.Array); ok {
				simple = false
			}
		}
		if !simple {
			vc.note("copy of nested struct elements: contents abstracted")
			fr.cur.heap = vc.heapHavoc(fr.cur.heap, map[string]bool{"H_" + vc.typeName(et) + ".*": true})
			return Val{Typ: rt, L: []string{n}}
		}
		// element-wise copy of every field: F'[r] = F[src element] if r is a destination element, else F[r]
		vc.elemRef(et, d.L[0], d.L[1]) // make sure elemref and its inverses are declared
		ef := q("elemref_" + vc.typeName(et))
		i1 := q("elemref1_" + vc.typeName(et))
		i2 := q("elemref2_" + vc.typeName(et))
		for i := 0; i < st.NumFields(); i++ {
			for _, l := range vc.shape(st.Field(i).Type()) {
				fam := vc.fieldFam(et, st.Field(i).Name()) + l.Suffix
				vc.family(fam, famSortFor(l.Sort, 1))
				cur := vc.lookup(fr.cur.heap, fam)
				na := vc.fresh(fam, vc.famSort[fam])
				r := q(vc.freshName("r"))
				isDst := "(and (= (" + i1 + " " + r + ") " + d.L[0] + ") (<= " + d.L[1] + " (" + i2 + " " + r + ")) (< (" + i2 + " " + r + ") (+ " + d.L[1] + " " + n + ")) (= " + r + " (" + ef + " (" + i1 + " " + r + ") (" + i2 + " " + r + "))))"
				src := "(select " + cur + " (" + ef + " " + s.L[0] + " (+ " + s.L[1] + " (- (" + i2 + " " + r + ") " + d.L[1] + "))))"
				vc.assume(fr.curR, "(forall (("+r+" Int)) (! (= (select "+na+" "+r+") (ite "+isDst+" "+src+" (select "+cur+" "+r+"))) :pattern ((select "+na+" "+r+"))))")
				fr.cur.heap = vc.heapSet(fr.cur.heap, fam, na)
			}
		}
		return Val{Typ: rt, L: []string{n}}
	}
	for _, l := range vc.shape(et) {
		fam := "E_" + vc.typeName(et) + l.Suffix
		vc.family(fam, famSortFor(l.Sort, 2))
		cur := vc.lookup(fr.cur.heap, fam)
		na := vc.fresh(fam, vc.famSort[fam])
		j := q(vc.freshName("j"))
		b := q(vc.freshName("b"))
		var src string
		if srcIsString {
			src = "(strbyte " + s.T() + " (- " + j + " " + d.L[1] + "))"
		} else {
			src = "(select (select " + cur + " " + s.L[0] + ") (+ " + s.L[1] + " (- " + j + " " + d.L[1] + ")))"
		}
		newArr := "(select " + na + " " + d.L[0] + ")"
		oldArr := "(select " + cur + " " + d.L[0] + ")"
		// index-normal form: the bound variable is the array index
		vc.assume(fr.curR, "(forall (("+j+" Int)) (! (= (select "+newArr+" "+j+") (ite (and (<= "+d.L[1]+" "+j+") (< "+j+" (+ "+d.L[1]+" "+n+"))) "+src+" (select "+oldArr+" "+j+"))) :pattern ((select "+newArr+" "+j+"))))")
		vc.assume(fr.curR, "(forall (("+b+" Int)) (! (=> (not (= "+b+" "+d.L[0]+")) (= (select "+na+" "+b+") (select "+cur+" "+b+"))) :pattern ((select "+na+" "+b+"))))")
		fr.cur.heap = vc.heapSet(fr.cur.heap, fam, na)
	}
	return Val{Typ: rt, L: []string{n}}
}

// ---------------------------------------------------------------------------
// library models

func libModSet(vc *VC, callee *ssa.Function, c *ssa.CallCommon) (map[string]bool, bool) {
	k := funcKey(callee)
	switch {
	case strings.HasPrefix(k, "sync.(*Mutex)"), strings.HasPrefix(k, "sync.(*RWMutex)"):
		return map[string]bool{}, true
	case k == "taskloop.(*Loop).Run":
		set := map[string]bool{}
		if mc, ok := c.Args[2].(*ssa.MakeClosure); ok {
			for f := range vc.modSet(mc.Fn.(*ssa.Function), map[*ssa.Function]bool{}) {
				set[f] = true
			}
		} else {
			set["*"] = true
		}
		return set, true
	case k == "sync.(*Once).Do":
		set := map[string]bool{}
		vc.addrFamilies(c.Args[0], set)
		if mc, ok := c.Args[1].(*ssa.MakeClosure); ok {
			for f := range vc.modSet(mc.Fn.(*ssa.Function), map[*ssa.Function]bool{}) {
				set[f] = true
			}
		} else {
			set["*"] = true
		}
		return set, true
	case strings.HasPrefix(k, "atomic.Load"):
		return map[string]bool{}, true
	case strings.HasPrefix(k, "atomic.Store"), strings.HasPrefix(k, "atomic.Add"), strings.HasPrefix(k, "atomic.Swap"), strings.HasPrefix(k, "atomic.CompareAndSwap"):
		set := map[string]bool{}
		if len(c.Args) > 0 {
			vc.addrFamilies(c.Args[0], set)
		}
		return set, true
	case strings.HasPrefix(k, "atomic.("):
		set := map[string]bool{}
		if len(c.Args) > 0 {
			vc.addrFamilies(c.Args[0], set)
		}
		if strings.Contains(k, ").Load") || strings.Contains(k, "Lock") {
			if strings.Contains(k, ").Load") {
				return map[string]bool{}, true
			}
		}
		return set, true
	case strings.HasPrefix(k, "binary.(bigEndian).Put"), strings.HasPrefix(k, "binary.(littleEndian).Put"):
		return map[string]bool{"E_uint8": true}, true
	case strings.HasPrefix(k, "binary.(bigEndian)."), strings.HasPrefix(k, "binary.(littleEndian)."):
		return map[string]bool{}, true
	case strings.HasPrefix(k, "slices.Contains"):
		return map[string]bool{}, true
	case k == "errors.New", k == "fmt.Errorf", k == "fmt.Sprintf", k == "errors.Is", k == "time.Now", k == "time.Since":
		return map[string]bool{}, true
	}
	return nil, false
}

func (fr *Frame) libModel(callee *ssa.Function, args []Val, rt types.Type, pos token.Pos) (Val, bool) {
	vc := fr.vc
	k := funcKey(callee)
	one := func(t string) (Val, bool) { return Val{Typ: rt, L: []string{t}}, true }
	if strings.HasPrefix(k, "slices.Contains") && len(args) == 2 && len(args[1].L) == 1 && args[0].Typ != nil {
		// slices.Contains(s, v) over scalar elements: some element of s equals v
		if st, ok := args[0].Typ.Underlying().(*types.Slice); ok && len(vc.shape(st.Elem())) == 1 {
			s, v := args[0], args[1]
			fam := "E_" + vc.typeName(st.Elem())
			vc.family(fam, famSortFor(vc.shape(st.Elem())[0].Sort, 2))
			arr := "(select " + vc.lookup(fr.cur.heap, fam) + " " + s.L[0] + ")"
			j := q(vc.freshName("j"))
			r := vc.define("contains", "Bool", "(exists (("+j+" Int)) (and (<= 0 "+j+") (< "+j+" "+s.L[2]+") (= (select "+arr+" (+ "+s.L[1]+" "+j+")) "+v.T()+")))")
			return one(r)
		}
	}
	switch k {
	case "binary.(bigEndian).Uint16", "binary.(bigEndian).Uint32", "binary.(bigEndian).Uint64",
		"binary.(littleEndian).Uint16", "binary.(littleEndian).Uint32", "binary.(littleEndian).Uint64":
		n := map[string]int{"16": 2, "32": 4, "64": 8}[k[len(k)-2:]]
		big := strings.Contains(k, "bigEndian")
		b := args[1]
		fr.boundsCheck(pos, "binary", fmt.Sprintf("(>= %s %d)", b.L[2], n))
		vc.family("E_uint8", famSortFor("Int", 2))
		arr := "(select " + vc.lookup(fr.cur.heap, "E_uint8") + " " + b.L[0] + ")"
		var terms []string
		for i := 0; i < n; i++ {
			sh := n - 1 - i
			if !big {
				sh = i
			}
			terms = append(terms, fmt.Sprintf("(* %s (select %s (+ %s %d)))", pow2(8*sh).String(), arr, b.L[1], i))
		}
		r := vc.define("be", "Int", "(+ "+joinSp(terms)+")")
		// bytes are in range (they came from a typed heap): state range of result
		for i := 0; i < n; i++ {
			e := fmt.Sprintf("(select %s (+ %s %d))", arr, b.L[1], i)
			vc.assume(fr.curR, "(and (>= "+e+" 0) (<= "+e+" 255))")
		}
		return one(r)
	case "binary.(bigEndian).PutUint16", "binary.(bigEndian).PutUint32", "binary.(bigEndian).PutUint64",
		"binary.(littleEndian).PutUint16", "binary.(littleEndian).PutUint32", "binary.(littleEndian).PutUint64":
		n := map[string]int{"16": 2, "32": 4, "64": 8}[k[len(k)-2:]]
		big := strings.Contains(k, "bigEndian")
		b, v := args[1], args[2]
		fr.boundsCheck(pos, "binary", fmt.Sprintf("(>= %s %d)", b.L[2], n))
		vc.family("E_uint8", famSortFor("Int", 2))
		cur := vc.lookup(fr.cur.heap, "E_uint8")
		inner := "(select " + cur + " " + b.L[0] + ")"
		// the bytes are the unique base-256 digits of v (linear characterisation instead of div/mod)
		var digits []string
		var sum []string
		for i := 0; i < n; i++ {
			d := vc.fresh("digit", "Int")
			vc.assert("(and (>= " + d + " 0) (<= " + d + " 255))")
			digits = append(digits, d)
		}
		for i := 0; i < n; i++ {
			sh := n - 1 - i
			if !big {
				sh = i
			}
			sum = append(sum, fmt.Sprintf("(* %s %s)", pow2(8*sh).String(), digits[i]))
			inner = fmt.Sprintf("(store %s (+ %s %d) %s)", inner, b.L[1], i, digits[i])
		}
		vc.assume(fr.curR, "(= "+v.T()+" (+ "+joinSp(sum)+"))")
		fr.cur.heap = vc.heapSet(fr.cur.heap, "E_uint8", vc.define("E_uint8", vc.famSort["E_uint8"], "(store "+cur+" "+b.L[0]+" "+inner+")"))
		return Val{Typ: rt}, true
	}
	if k == "reflect.ValueOf" && len(args) == 1 && len(args[0].L) == 2 {
		// the reflect.Value of an interface value remembers the object behind it: IsNil (below)
		// is "that object is the nil pointer"
		res := vc.freshVal("reflect.value", rt)
		var srt []string
		for i := range res.L {
			srt = append(srt, vc.sortOf(res, i))
		}
		f := vc.declFun("reflect_payload", srt, "Int")
		vc.assume(fr.curR, "(= ("+f+" "+joinSp(res.L)+") "+args[0].L[1]+")")
		vc.note("reflect.ValueOf / Value.IsNil modelled: IsNil of an interface's value is 'its payload is nil'")
		return res, true
	}
	if k == "reflect.(Value).IsNil" && len(args) == 1 && vc.declared[q("reflect_payload")] {
		return one("(= (|reflect_payload| " + joinSp(args[0].L) + ") 0)")
	}
	if k == "taskloop.(*Loop).Run" {
		// As seen from package ice (DESIGN 3.6): either the task ran exactly once to completion on
		// the loop (nil returned) or it did not run (non-nil error). Tasks of one loop do not
		// overlap with each other (B-loop-mutex, assumed).
		vc.note("taskloop.Loop.Run: the task runs exactly once and nil is returned, or it does not run and an error is returned (structural half checked on taskloop itself; mutual exclusion of tasks assumed)")
		ran := vc.fresh("loop.ran", "Bool")
		clo := args[2].Clo
		fr.condCall(ran, func() {
			if clo != nil {
				fn := clo.Fn.(*ssa.Function)
				ctxArg := []Val{args[1]}
				fr.staticCall(fn, clo.Bindings, ctxArg, resultType(fn.Signature), pos)
			} else {
				fr.unknownCall("taskloop.Run of unknown func", nil, rt, true)
			}
		})
		res := vc.freshVal("loop.err", rt)
		fr.typed(res)
		vc.assume(fr.curR, "(= "+ran+" (= "+res.L[0]+" 0))")
		return res, true
	}
	if k == "sync.(*Once).Do" {
		// once.Do(f): if !done { done = true; f() }
		recv := args[0]
		T := callee.Signature.Recv().Type().Underlying().(*types.Pointer).Elem()
		loc := recv.Loc
		if loc == nil {
			loc = &Loc{Fam: "E_" + vc.typeName(T), Idx: []string{recv.L[0], "0"}, Typ: T}
		}
		done := vc.define("once.done", "Bool", not(eq(vc.loadLoc(fr.cur.heap, loc).T(), "0")))
		fr.cur.heap = vc.storeLoc(fr.cur.heap, loc, Val{Typ: T, L: []string{"1"}})
		if args[1].Clo != nil {
			fr.condCall(not(done), func() {
				fn := args[1].Clo.Fn.(*ssa.Function)
				fr.staticCall(fn, args[1].Clo.Bindings, nil, resultType(fn.Signature), pos)
			})
		} else {
			fr.condCall(not(done), func() { fr.unknownCall("sync.Once.Do of unknown func", nil, rt, true) })
		}
		return Val{Typ: rt}, true
	}
	if strings.HasPrefix(k, "sync.(*Mutex).") || strings.HasPrefix(k, "sync.(*RWMutex).") {
		switch callee.Name() {
		case "Lock", "Unlock", "RLock", "RUnlock":
			if args[0].Loc != nil && strings.HasPrefix(args[0].Loc.Fam, "H_") && len(args[0].Loc.Idx) == 1 {
				if li := vc.S.LockInvs[args[0].Loc.Fam[2:]]; li != nil {
					fr.lockInvariant(li, args[0].Loc.Idx[0], callee.Name(), pos)
					return Val{Typ: rt}, true
				}
			}
			vc.note("sync.Mutex/RWMutex Lock/Unlock without a declared lock invariant: no effect on modelled state (sequential reading)")
			return Val{Typ: rt}, true
		}
	}
	// sync/atomic function-style operations on a location
	if strings.HasPrefix(k, "atomic.Load") || strings.HasPrefix(k, "atomic.Store") || strings.HasPrefix(k, "atomic.Add") || strings.HasPrefix(k, "atomic.Swap") || strings.HasPrefix(k, "atomic.CompareAndSwap") {
		p := args[0]
		if pt, ok := p.Typ.Underlying().(*types.Pointer); ok {
			if _, _, isInt := intInfo(pt.Elem()); isInt {
				T := pt.Elem()
				rd := func() string { return fr.loadPtr(fr.cur.heap, p, T).T() }
				wr := func(t string) { fr.cur.heap = fr.storePtr(fr.cur.heap, p, T, Val{Typ: T, L: []string{t}}) }
				switch {
				case strings.HasPrefix(k, "atomic.Load"):
					r := vc.define("atomic.load", "Int", rd())
					vc.assume(fr.curR, vc.leafFact(r, Leaf{"", "Int", T}))
					return one(r)
				case strings.HasPrefix(k, "atomic.Store"):
					wr(args[1].T())
					return Val{Typ: rt}, true
				case strings.HasPrefix(k, "atomic.Add"):
					nv := vc.define("atomic.add", "Int", fr.wrapInt("(+ "+rd()+" "+args[1].T()+")", T))
					wr(nv)
					return one(nv)
				case strings.HasPrefix(k, "atomic.Swap"):
					old := vc.define("atomic.old", "Int", rd())
					wr(args[1].T())
					return one(old)
				case strings.HasPrefix(k, "atomic.CompareAndSwap"):
					old := vc.define("atomic.old", "Int", rd())
					okc := vc.define("atomic.cas", "Bool", eq(old, args[1].T()))
					wr(ite(okc, args[2].T(), old))
					return one(okc)
				}
			}
		}
	}
	// sync/atomic typed values: modelled as sequentially consistent cells
	if strings.HasPrefix(k, "atomic.(*") {
		recv := args[0]
		T := callee.Signature.Recv().Type().Underlying().(*types.Pointer).Elem()
		m := callee.Name()
		loc := recv.Loc
		if loc == nil {
			loc = &Loc{Fam: "E_" + vc.typeName(T), Idx: []string{recv.L[0], "0"}, Typ: T}
		}
		if isAtomicValue(T) {
			cur := vc.loadLoc(fr.cur.heap, loc)
			switch m {
			case "Load":
				return fr.typed(fr.nameVal2("atomic.load", Val{Typ: rt, L: cur.L})), true
			case "Store":
				fr.cur.heap = vc.storeLoc(fr.cur.heap, loc, Val{Typ: T, L: args[1].L})
				return Val{Typ: rt}, true
			case "Swap":
				old := fr.nameVal2("atomic.old", Val{Typ: rt, L: cur.L})
				fr.cur.heap = vc.storeLoc(fr.cur.heap, loc, Val{Typ: T, L: args[1].L})
				return old, true
			case "CompareAndSwap":
				okc := vc.define("atomic.cas", "Bool", and(eq(cur.L[0], args[1].L[0]), eq(cur.L[1], args[1].L[1])))
				fr.cur.heap = vc.storeLoc(fr.cur.heap, loc, Val{Typ: T, L: []string{ite(okc, args[2].L[0], cur.L[0]), ite(okc, args[2].L[1], cur.L[1])}})
				return Val{Typ: rt, L: []string{okc}}, true
			}
		}
		isBool := strings.HasSuffix(vc.typeName(T), "atomic.Bool")
		rd := func() string {
			v := vc.loadLoc(fr.cur.heap, loc).T()
			vc.assume(fr.curR, vc.leafFact(v, Leaf{"", "Int", T}))
			return v
		}
		wr := func(t string) {
			fr.cur.heap = vc.storeLoc(fr.cur.heap, loc, Val{Typ: T, L: []string{t}})
		}
		enc := func(v Val) string {
			if isBool {
				return ite(v.T(), "1", "0")
			}
			if len(v.L) == 2 { // atomic.Value.Store(any)
				return fr.payload(v, types.NewInterfaceType(nil, nil))
			}
			return v.T()
		}
		switch m {
		case "Load":
			if isBool {
				return one(not(eq(rd(), "0")))
			}
			if strings.HasSuffix(vc.typeName(T), "atomic.Value") {
				v := fr.unpayload(rd(), rt)
				v.Typ = rt
				return fr.typed(fr.nameVal2("atomic.load", v)), true
			}
			r := vc.define("atomic.load", "Int", rd())
			if len(vc.shape(rt)) == 1 {
				vc.assume(fr.curR, vc.leafFact(r, vc.shape(rt)[0]))
			}
			return one(r)
		case "Store":
			wr(enc(args[1]))
			return Val{Typ: rt}, true
		case "Add":
			nv := vc.define("atomic.add", "Int", fr.wrapInt("(+ "+rd()+" "+args[1].T()+")", rt))
			wr(nv)
			return one(nv)
		case "Swap":
			old := vc.define("atomic.old", "Int", rd())
			wr(enc(args[1]))
			if isBool {
				return one(not(eq(old, "0")))
			}
			return one(old)
		case "CompareAndSwap":
			old := vc.define("atomic.old", "Int", rd())
			okc := vc.define("atomic.cas", "Bool", eq(old, enc(args[1])))
			wr(ite(okc, enc(args[2]), old))
			return one(okc)
		}
	}
	return Val{}, false
}

// condCall runs body under the extra path condition cond and merges the
// resulting state with the state of the path where cond is false.
func (fr *Frame) condCall(cond string, body func()) {
	vc := fr.vc
	start := *fr.cur
	startR := fr.curR
	st := start
	fr.cur = &st
	c := vc.define("R.cond", "Bool", and(startR, cond))
	fr.curR = c
	body()
	after := *fr.cur
	fr.curR = startR
	ns := start
	ns.heap = vc.heapMerge([]string{cond, "true"}, []*Heap{after.heap, start.heap})
	ns.now = vc.define("now", "Int", ite(cond, after.now, start.now))
	fr.cur = &ns
}

// lockInvariant implements the lock-invariant rule: acquiring the mutex
// forgets the protected fields of that object and assumes the invariant;
// releasing it requires the invariant to hold again.
func (fr *Frame) lockInvariant(li *LockInv, x string, op string, pos token.Pos) {
	vc := fr.vc
	i := strings.LastIndex(li.Key, ".")
	tname := li.Key[:i]
	T := vc.P.TypesByName[tname]
	if T == nil {
		vc.errorf("lockinv: unknown type %s", tname)
		return
	}
	this := Val{Typ: types.NewPointer(T), L: []string{x}}
	mkEnv := func() *Env {
		e := fr.envHere("lock invariant of " + li.Key)
		e.vars["this"] = this
		return e
	}
	switch op {
	case "Lock", "RLock":
		// other threads may have changed the protected state while we did not hold the lock
		for _, f := range li.Protects {
			if gf, ok := vc.S.Ghosts[tname+"."+f]; ok {
				fam := "H_" + tname + "." + f
				srt := specSort(gf.GType)
				vc.family(fam, "(Array Int "+srt+")")
				nv := vc.fresh("lk."+f, srt)
				fr.cur.heap = vc.heapSet(fr.cur.heap, fam, vc.define(fam, vc.famSort[fam], "(store "+vc.lookup(fr.cur.heap, fam)+" "+x+" "+nv+")"))
				continue
			}
			st := T.Underlying().(*types.Struct)
			found := false
			for k := 0; k < st.NumFields(); k++ {
				if st.Field(k).Name() != f {
					continue
				}
				found = true
				fa := vc.fieldAddr(T, k, x)
				if fa.Loc == nil {
					vc.errorf("lockprotects: field %s of %s is a nested struct/array (unsupported)", f, tname)
					continue
				}
				nv := vc.freshVal("lk."+f, fa.Loc.Typ)
				fr.typed(nv)
				fr.cur.heap = vc.storeLoc(fr.cur.heap, fa.Loc, nv)
			}
			if !found {
				vc.errorf("lockprotects: %s has no field %s", tname, f)
			}
		}
		env := mkEnv()
		for _, c := range li.Clauses {
			vc.assume(fr.curR, env.evalAssume(c.E).T())
		}
	case "Unlock", "RUnlock":
		env := mkEnv()
		for k, c := range li.Clauses {
			lbl := c.Label
			if lbl == "" {
				lbl = fmt.Sprint(k + 1)
			}
			g := env.evalGoal(c.E).T()
			fr.oblige("lockinv", fmt.Sprintf("%s@L%d", lbl, fr.pos(pos).Line), g, c.Props, pos, "lock invariant of "+li.Key+": "+c.Src)
		}
	}
}
