package main

// verify.go: obligations of one function under contract, and lemmas.

import (
	"fmt"
	"os"
	"go/types"
	"sort"
	"strings"

	"golang.org/x/tools/go/ssa"
)

type FuncResult struct {
	Key   string
	VC    *VC
	Obls  []*Obligation
	Notes []string
	Errs  []string
}

func contractMentions(ct *Contract, prop string) bool {
	if hasProp(ct.Props, prop) {
		return true
	}
	for _, c := range ct.Requires {
		if hasProp(c.Props, prop) {
			return true
		}
	}
	for _, c := range ct.Ensures {
		if hasProp(c.Props, prop) {
			return true
		}
	}
	for _, cs := range ct.LoopInv {
		for _, c := range cs {
			if hasProp(c.Props, prop) {
				return true
			}
		}
	}
	for _, s := range ct.Sites {
		if hasProp(s.Clause.Props, prop) {
			return true
		}
	}
	return false
}

func verifyFunction(P *Program, S *Specs, ct *Contract) *FuncResult {
	return verifyFunctionAs(P, S, ct, nil, nil)
}

// verifyFunctionAs verifies fn (default: the function the contract names)
// against ct. With implType != nil the contract is an interface-method contract
// and fn the method of implementor implType: the contract's first parameter
// name denotes the receiver boxed as an interface value (conformance check).
func verifyFunctionAs(P *Program, S *Specs, ct *Contract, fnOverride *ssa.Function, implType types.Type) *FuncResult {
	vc := newVC(P, S)
	res := &FuncResult{Key: ct.Key, VC: vc}
	defer func() {
		if r := recover(); r != nil {
			vc.errorf("internal error while generating VCs for %s: %v", ct.Key, r)
			res.Errs = vc.errors
			if debugPanic {
				panic(r)
			}
		}
	}()
	fn := P.Funcs[ct.Key]
	if fnOverride != nil {
		fn = fnOverride
	}
	if fn == nil {
		vc.obls = append(vc.obls, &Obligation{Name: ct.Key + "/contract-binding", Props: ct.Props, Kind: "contract-binding", Fn: ct.Key,
			Goal: "false", Reach: "true", Src: "contract names a function that does not exist in the tree", Status: "unbound", vc: vc})
		res.Obls = vc.obls
		return res
	}
	vc.curFn = ct.Key
	fr := vc.newFrame(fn, nil)
	fr.contract = ct
	now0 := vc.declConst("now0", "Int")
	entry := &State{heap: vc.rootHeap(), now: now0}
	fr.cur = entry
	fr.curR = "true"
	for _, p := range fn.Params {
		v := vc.freshVal("p."+p.Name(), p.Type())
		fr.vals[p] = v
		fr.params = append(fr.params, v)
		fr.typed(v)
	}
	for i, fv := range fn.FreeVars {
		v := vc.freshVal("fv."+fv.Name(), fv.Type())
		_ = i
		fr.freeVars = append(fr.freeVars, v)
		fr.typed(v)
		// what a captured variable holds when the closure starts existed before it started
		if pt, ok := fv.Type().Underlying().(*types.Pointer); ok {
			lv := fr.loadPtr(entry.heap, v, pt.Elem())
			lv.Typ = pt.Elem()
			fr.typed(lv)
		}
	}
	fr.entry = entry
	if implType != nil {
		fr.aliases = map[string]Val{}
		names := ct.Params
		if len(names) == 0 {
			names = []string{"this"}
		}
		for i, n := range names {
			if i >= len(fr.params) {
				break
			}
			if i == 0 {
				fr.aliases[n] = Val{Typ: implIfaceType(ct, P), L: []string{vc.typeTag(implType), fr.payload(fr.params[0], implType)}}
			} else {
				fr.aliases[n] = fr.params[i]
			}
		}
	}
	env := fr.envAt(entry, entry.heap, "requires of "+ct.Key)
	for _, rq := range ct.Requires {
		vc.assert(env.evalAssume(rq.E).T())
	}
	startHeap := entry.heap
	for _, gv := range ct.GhostVars {
		fam := "GV_" + ct.Key + "." + gv.Name
		vc.family(fam, specSort(gv.GType))
		if gv.Init != nil {
			startHeap = vc.heapSet(startHeap, fam, env.eval(gv.Init).T())
		}
	}
	fr.run(&State{heap: startHeap, now: entry.now}, "true")
	// loop / site binding checks
	for k := range ct.LoopInv {
		if k < 1 || k > len(fr.loops) {
			vc.obls = append(vc.obls, &Obligation{Name: fmt.Sprintf("%s/contract-binding#loop%d", ct.Key, k), Props: ct.Props, Kind: "contract-binding", Fn: ct.Key,
				Goal: "false", Reach: "true", Src: fmt.Sprintf("contract names loop %d but the function has %d loops", k, len(fr.loops)), Status: "unbound", vc: vc})
		}
	}
	for i := range ct.Sites {
		sc := &ct.Sites[i]
		if siteHits[sc] == 0 {
			vc.obls = append(vc.obls, &Obligation{Name: fmt.Sprintf("%s/contract-binding#site.%s.%s.%d", ct.Key, sc.Kind, sc.Target, sc.Ord), Props: propsOr(sc.Clause.Props, ct.Props), Kind: "contract-binding", Fn: ct.Key,
				Goal: "false", Reach: "true", Src: fmt.Sprintf("site %s %s#%d does not exist in the function", sc.Kind, sc.Target, sc.Ord), Status: "unbound", vc: vc})
		}
	}
	// postconditions at every return
	for ri, r := range fr.rets {
		fr.cur = &State{heap: r.heap, now: r.now}
		fr.curR = r.cond
		fr.curBlk = r.blk
		fr.curIdx = len(r.blk.Instrs)
		penv := fr.envAt(fr.cur, entry.heap, "ensures of "+ct.Key)
		penv.blk, penv.idx = nil, 0
		rv := Val{Typ: fn.Signature.Results()}
		for _, v := range r.vals {
			rv.L = append(rv.L, v.L...)
		}
		bindResults(vc, penv, fn.Signature, ct.Results, rv)
		for i, en := range ct.Ensures {
			lbl := en.Label
			if lbl == "" {
				lbl = fmt.Sprint(i + 1)
			}
			g := penv.evalGoal(en.E).T()
			if o := fr.oblige("post", fmt.Sprintf("%s.ret%d", lbl, ri+1), g, en.Props, r.blk.Instrs[len(r.blk.Instrs)-1].Pos(), "ensures "+en.Src); o != nil {
				o.env = penv
			}
		}
		if ct.HasMod {
			fr.frameObligations(ct, entry, r, ri, env)
		}
		// cover: this return is reachable under the precondition
		vc.obls = append(vc.obls, &Obligation{Name: fmt.Sprintf("%s/cover#ret%d", ct.Key, ri+1), Props: ct.Props, Kind: "cover", Fn: ct.Key,
			Prefix: len(vc.lines), Reach: r.cond, Goal: "false", Cover: true, vc: vc, Src: "return reachable under requires", Pos: fr.pos(r.blk.Instrs[len(r.blk.Instrs)-1].Pos())})
	}
	if len(fr.rets) == 0 {
		vc.errorf("%s: no return reached", ct.Key)
	}
	res.Obls = vc.obls
	for n := range vc.notes {
		res.Notes = append(res.Notes, n)
	}
	sort.Strings(res.Notes)
	res.Errs = vc.errors
	return res
}

var debugPanic = false

func propsOr(a, b []string) []string {
	if len(a) > 0 {
		return a
	}
	return b
}

func (fr *Frame) envAt(st *State, old *Heap, what string) *Env {
	e := &Env{vc: fr.vc, fr: fr, vars: map[string]Val{}, heap: st.heap, old: old, now: st.now, what: what, reach: fr.curR}
	if fr.fn.Pkg != nil {
		e.pkg = fr.fn.Pkg.Pkg
	} else if fr.top.contract != nil {
		e.pkg = fr.contractPkg(fr.top.contract)
	}
	for i, p := range fr.fn.Params {
		if i < len(fr.params) {
			e.vars[p.Name()] = fr.params[i]
			e.vars[p.Name()+"0"] = fr.params[i]
		}
	}
	for k, v := range fr.aliases {
		e.vars[k] = v
	}
	return e
}

// implIfaceType: the interface type an "iface pkg.I.m" contract belongs to.
func implIfaceType(ct *Contract, P *Program) types.Type {
	k := strings.TrimPrefix(ct.Key, "iface ")
	i := strings.LastIndex(k, ".")
	if i < 0 {
		return nil
	}
	return P.TypesByName[k[:i]]
}

// verifyConformance: every repository implementor of the interface of an
// iface contract marked `conforms` satisfies that contract.
func verifyConformance(P *Program, S *Specs, ct *Contract, prop string) []*FuncResult {
	var out []*FuncResult
	it := implIfaceType(ct, P)
	if os.Getenv("GOVC_DEBUG_CONF") != "" {
		fmt.Fprintf(os.Stderr, "conformance %s: iface type %v\n", ct.Key, it)
	}
	if it == nil {
		return nil
	}
	k := strings.TrimPrefix(ct.Key, "iface ")
	mname := k[strings.LastIndex(k, ".")+1:]
	tmp := newVC(P, S)
	impls := tmp.implementors(it)
	if ct.ConformsRepo {
		impls = tmp.repoImplementors(it)
	}
	for _, T := range impls {
		m := P.SSA.LookupMethod(T, it.(*types.Named).Obj().Pkg(), mname)
		if m == nil {
			continue
		}
		c2 := *ct
		c2.Key = ct.Key + " @ " + tmp.typeName(T)
		c2.NoBody = false
		c2.Trusted = false
		r := verifyFunctionAs(P, S, &c2, m, T)
		for _, o := range r.Obls {
			o.Name = "conforms/" + tmp.typeName(T) + "/" + o.Name
		}
		out = append(out, r)
	}
	return out
}

// frameObligations: every family that may have changed between entry and this
// return is unchanged at every pre-existing object outside the modifies clause.
func (fr *Frame) frameObligations(ct *Contract, entry *State, r retInfo, ri int, env *Env) {
	vc := fr.vc
	acc := map[string]bool{}
	vc.changedBetween(entry.heap, r.heap, acc, map[*Heap]bool{})
	touched := map[string]bool{}
	for f := range vc.famSort {
		touched[f] = true
	}
	vc.registerAllFamilies()
	var others []string
	var allowedLocs []*Loc
	allowedFams := map[string]bool{}
	for _, m := range ct.Modifies {
		locs, fams := env.modTargets(m)
		allowedLocs = append(allowedLocs, locs...)
		for _, f := range fams {
			allowedFams[f] = true
		}
	}
	// fields declared `lockprotects` change by interference whenever their lock is taken
	// (modelled at Lock): they are shared state governed by the lock invariant, not part of any
	// function's frame
	lockProtected := map[string]bool{}
	for key, li := range vc.S.LockInvs {
		tname := key
		if i := strings.LastIndex(key, "."); i > 0 {
			tname = key[:i]
		}
		for _, f := range li.Protects {
			lockProtected["H_"+tname+"."+f] = true
		}
	}
	individually := 0
	var fams []string
	for f := range vc.famSort {
		if strings.HasPrefix(f, "GV_") || strings.HasPrefix(f, "RV_") {
			continue
		}
		if lockProtected[ghostBase(f)] {
			continue
		}
		if inSet(acc, f) && !inSet(allowedFams, f) {
			fams = append(fams, f)
		}
	}
	sort.Strings(fams)
	for _, f := range fams {
		a, b := vc.lookup(entry.heap, f), vc.lookup(r.heap, f)
		if a == b {
			continue
		}
		srt := vc.famSort[f]
		var goal string
		if !strings.HasPrefix(srt, "(Array Int ") {
			goal = eq(a, b)
		} else {
			x := q(vc.freshName("x"))
			conds := []string{"(< (birth " + x + ") " + entry.now + ")"}
			for _, l := range allowedLocs {
				if l.Typ == nil {
					if l.Fam == f {
						conds = append(conds, not(eq(x, l.Idx[0])))
					}
					continue
				}
				for _, lf := range vc.shape(l.Typ) {
					if l.Fam+lf.Suffix == f && len(l.Idx) >= 1 {
						conds = append(conds, not(eq(x, l.Idx[0])))
					}
				}
			}
			goal = "(forall ((" + x + " Int)) (=> " + and(conds...) + " (= (select " + b + " " + x + ") (select " + a + " " + x + "))))"
		}
		if !touched[f] || individually >= 40 {
			// (at most 40 families get an obligation of their own: a function with an unresolved
			// wildcard effect would otherwise produce one slow obligation per family of the program)
			others = append(others, goal)
			continue
		}
		individually++
		fr.oblige("frame", fmt.Sprintf("%s.ret%d", sanitize(f), ri+1), goal, nil, r.blk.Instrs[len(r.blk.Instrs)-1].Pos(), "modifies clause: "+f+" unchanged outside "+strings.Join(ct.Modifies, ", "))
	}
	if len(others) > 0 {
		fr.oblige("frame", fmt.Sprintf("all-other-families.ret%d", ri+1), and(others...), nil, r.blk.Instrs[len(r.blk.Instrs)-1].Pos(), fmt.Sprintf("modifies clause: the %d families never mentioned by the function are unchanged (they can change only through a wildcard havoc)", len(others)))
	}
}

// ---------------------------------------------------------------------------
// lemmas

func verifyLemmas(P *Program, S *Specs, prop string) *FuncResult {
	res := &FuncResult{Key: "lemmas"}
	var pkg *types.Package
	if p := P.PkgByName["ice"]; p != nil {
		pkg = p
	}
	byName := map[string]*Lemma{}
	for _, lm := range S.Lemmas {
		byName[lm.Name] = lm
	}
	for _, lm := range S.Lemmas {
		if lm.Axiom || !(prop == "" || hasProp(lm.Props, prop)) {
			continue
		}
		vc := newVC(P, S)
		vc.curFn = "lemma " + lm.Name
		for _, u := range lm.Uses {
			ul := byName[u]
			if ul == nil {
				vc.errorf("lemma %s uses unknown lemma %s", lm.Name, u)
				continue
			}
			if ul.Axiom {
				res.Notes = append(res.Notes, "axiom "+ul.Name+": "+ul.Src)
			}
			env := &Env{vc: vc, vars: map[string]Val{}, pkg: pkg, what: "lemma " + ul.Name}
			vc.assert(env.eval(ul.E).T())
		}
		env := &Env{vc: vc, vars: map[string]Val{}, pkg: pkg, what: "lemma " + lm.Name}
		g := env.eval(lm.E).T()
		o := &Obligation{Name: "lemma/" + lm.Name, Props: lm.Props, Kind: "lemma", Fn: "lemma", Prefix: len(vc.lines), Reach: "true", Goal: g, Src: lm.Src, vc: vc}
		res.Obls = append(res.Obls, o)
		res.Errs = append(res.Errs, vc.errors...)
	}
	return res
}

var _ = ssa.Function{}
