package main

// instr2.go: memory-shaped instructions: alloc, load, slices, maps, range, select.

import (
	"fmt"
	"go/token"
	"go/types"
	"strings"

	"golang.org/x/tools/go/ssa"
)

func (fr *Frame) alloc(x ssa.Value, T types.Type, hint string) Val {
	vc := fr.vc
	r := fr.freshRef(hint)
	pt := types.NewPointer(T)
	z := vc.zeroVal(T)
	p := Val{Typ: pt, L: []string{r}}
	fr.cur.heap = fr.storePtr(fr.cur.heap, p, T, z)
	// ghost fields of a new object start at their zero value (0 / false): nothing can have spoken about
	// an object that did not exist. Interface-level ghosts (iface.g) hang off the payload, i.e. this reference.
	tn := vc.typeName(T)
	var gkeys []string
	for k := range vc.S.Ghosts {
		gkeys = append(gkeys, k)
	}
	sortStrings(gkeys)
	for _, k := range gkeys {
		gf := vc.S.Ghosts[k]
		if gf.Type != "iface" && gf.Type != tn {
			continue
		}
		srt := specSort(gf.GType)
		def := "0"
		if srt == "Bool" {
			def = "false"
		} else if srt != "Int" {
			continue
		}
		fam := "H_" + gf.Type + "." + gf.Name
		vc.family(fam, "(Array Int "+srt+")")
		vc.assume(fr.curR, "(= (select "+vc.lookup(fr.cur.heap, fam)+" "+r+") "+def+")")
	}
	return p
}

func (fr *Frame) unop(in *ssa.UnOp) Val {
	vc := fr.vc
	x := fr.get(in.X)
	switch in.Op {
	case token.NOT:
		return Val{Typ: in.Type(), L: []string{not(x.T())}}
	case token.SUB:
		return Val{Typ: in.Type(), L: []string{fr.wrapInt("(- "+x.T()+")", in.Type())}}
	case token.XOR:
		bits, signed, ok := intInfo(in.Type())
		if ok && !signed {
			return Val{Typ: in.Type(), L: []string{"(- " + pow2(bits).String() + " 1 " + x.T() + ")"}}
		}
		return Val{Typ: in.Type(), L: []string{"(- (- " + x.T() + ") 1)"}}
	case token.MUL:
		T := in.X.Type().Underlying().(*types.Pointer).Elem()
		if fr.wantSafety("nil") && x.Loc == nil {
			fr.oblige("safety-nil", fmt.Sprintf("L%d", fr.pos(in.Pos()).Line), not(eq(x.L[0], "0")), nil, in.Pos(), in.String())
		}
		v := fr.loadPtr(fr.cur.heap, x, T)
		v.Typ = in.Type()
		// named + typed
		nv := fr.nameVal(in, v)
		fr.typed(nv)
		if g, ok := in.X.(*ssa.Global); ok && fr.vc.typeName(in.Type()) == "error" {
			if strings.HasPrefix(g.Name(), "Err") || strings.HasPrefix(g.Name(), "err") || g.Name() == "EOF" {
				fr.vc.note("package-level error sentinels (Err*/err*/EOF) are non-nil and never reassigned")
				fr.vc.assume(fr.curR, not(eq(nv.L[0], "0")))
			}
		}
		if x.Loc != nil {
			if c := fr.cloLoad(x.Loc); c != nil {
				nv.Clo = c
			}
		}
		return nv
	case token.ARROW:
		// channel receive: contents not modelled
		fr.sitePseudo(in, "recv", in.Pos(), []Val{x}, nil, true)
		v := vc.freshVal(fr.vname(in), in.Type())
		fr.typed(v)
		fr.blockingPoint("channel receive")
		fr.sitePseudo(in, "recv", in.Pos(), []Val{x}, []Val{v}, false)
		return v
	}
	vc.errorf("%s: unsupported unop %s", fr.fn, in.Op)
	return vc.freshVal("unop", in.Type())
}

// blockingPoint: another goroutine may run; state protected by nothing that the
// current function owns may change. The sequential VC keeps the heap (the
// properties that rely on it list the assumption).
func (fr *Frame) blockingPoint(what string) {
	fr.vc.note("blocking operation (" + what + ") in " + fr.top.fn.String() + ": heap kept (sequential reading)")
}

func (fr *Frame) boundsCheck(pos token.Pos, what, cond string) {
	if fr.wantSafety("index") {
		fr.oblige("safety-index", fmt.Sprintf("L%d.%s", fr.pos(pos).Line, what), cond, nil, pos, what)
	}
	// after the check the program continues only if it held
	fr.vc.assume(fr.curR, cond)
}

func (fr *Frame) indexAddr(in *ssa.IndexAddr) Val {
	vc := fr.vc
	x := fr.get(in.X)
	i := fr.get(in.Index).T()
	if _, isConst := in.Index.(*ssa.Const); !isConst {
		fr.addHint(i)
	}
	var base, idx string
	var et types.Type
	switch t := in.X.Type().Underlying().(type) {
	case *types.Slice:
		et = t.Elem()
		base = x.L[0]
		idx = "(+ " + x.L[1] + " " + i + ")"
		fr.boundsCheck(in.Pos(), "index", "(and (<= 0 "+i+") (< "+i+" "+x.L[2]+"))")
	case *types.Pointer:
		at := t.Elem().Underlying().(*types.Array)
		et = at.Elem()
		base = x.L[0]
		idx = i
		fr.boundsCheck(in.Pos(), "index", fmt.Sprintf("(and (<= 0 %s) (< %s %d))", i, i, at.Len()))
	default:
		vc.errorf("%s: IndexAddr on %s", fr.fn, in.X.Type())
		return vc.freshVal("ia", in.Type())
	}
	if vc.flatStruct(et) {
		return Val{Typ: in.Type(), L: []string{vc.elemRef(et, base, idx)}}
	}
	if at, ok := et.Underlying().(*types.Array); ok {
		_ = at
		return Val{Typ: in.Type(), L: []string{vc.elemRef(et, base, idx)}}
	}
	return Val{Typ: in.Type(), L: []string{"(+ " + base + " 0)"}, Loc: &Loc{Fam: "E_" + vc.typeName(et), Idx: []string{base, idx}, Typ: et}}
}

func (fr *Frame) index(in *ssa.Index) Val {
	vc := fr.vc
	x := fr.get(in.X)
	i := fr.get(in.Index).T()
	switch t := in.X.Type().Underlying().(type) {
	case *types.Basic: // string
		fr.boundsCheck(in.Pos(), "strindex", "(and (<= 0 "+i+") (< "+i+" (strlen "+x.T()+")))")
		r := vc.define(fr.vname(in), "Int", "(strbyte "+x.T()+" "+i+")")
		vc.assert("(and (>= " + r + " 0) (<= " + r + " 255))")
		return Val{Typ: in.Type(), L: []string{r}}
	case *types.Array:
		fr.boundsCheck(in.Pos(), "index", fmt.Sprintf("(and (<= 0 %s) (< %s %d))", i, i, t.Len()))
		out := Val{Typ: in.Type()}
		for _, l := range x.L {
			out.L = append(out.L, "(select "+l+" "+i+")")
		}
		return fr.typed(fr.nameVal(in, out))
	}
	vc.errorf("%s: Index on %s", fr.fn, in.X.Type())
	return vc.freshVal("idx", in.Type())
}

// ---------------------------------------------------------------------------
// slices

func (fr *Frame) sliceInstr(in *ssa.Slice) Val {
	vc := fr.vc
	x := fr.get(in.X)
	opt := func(v ssa.Value, def string) string {
		if v == nil {
			return def
		}
		return fr.get(v).T()
	}
	switch t := in.X.Type().Underlying().(type) {
	case *types.Slice:
		lo := opt(in.Low, "0")
		hi := opt(in.High, x.L[2])
		mx := opt(in.Max, x.L[3])
		fr.boundsCheck(in.Pos(), "slice", "(and (<= 0 "+lo+") (<= "+lo+" "+hi+") (<= "+hi+" "+mx+") (<= "+mx+" "+x.L[3]+"))")
		return Val{Typ: in.Type(), L: []string{x.L[0], "(+ " + x.L[1] + " " + lo + ")", "(- " + hi + " " + lo + ")", "(- " + mx + " " + lo + ")"}}
	case *types.Basic: // string
		lo := opt(in.Low, "0")
		hi := opt(in.High, "(strlen "+x.T()+")")
		fr.boundsCheck(in.Pos(), "strslice", "(and (<= 0 "+lo+") (<= "+lo+" "+hi+") (<= "+hi+" (strlen "+x.T()+")))")
		f := vc.declFun("substr", []string{"Int", "Int", "Int"}, "Int")
		r := vc.define(fr.vname(in), "Int", "("+f+" "+x.T()+" "+lo+" "+hi+")")
		vc.assume(fr.curR, "(= (strlen "+r+") (- "+hi+" "+lo+"))")
		// whole-string slice is the identity; empty slice is the empty string
		vc.assume(fr.curR, "(=> (and (= "+lo+" 0) (= "+hi+" (strlen "+x.T()+"))) (= "+r+" "+x.T()+"))")
		return Val{Typ: in.Type(), L: []string{r}}
	case *types.Pointer:
		at := t.Elem().Underlying().(*types.Array)
		n := fmt.Sprint(at.Len())
		lo := opt(in.Low, "0")
		hi := opt(in.High, n)
		mx := opt(in.Max, n)
		fr.boundsCheck(in.Pos(), "slice", "(and (<= 0 "+lo+") (<= "+lo+" "+hi+") (<= "+hi+" "+mx+") (<= "+mx+" "+n+"))")
		return Val{Typ: in.Type(), L: []string{x.L[0], lo, "(- " + hi + " " + lo + ")", "(- " + mx + " " + lo + ")"}}
	}
	vc.errorf("%s: Slice on %s", fr.fn, in.X.Type())
	return vc.freshVal("slice", in.Type())
}

func (fr *Frame) makeSlice(in *ssa.MakeSlice) Val {
	vc := fr.vc
	ln := fr.get(in.Len).T()
	cp := fr.get(in.Cap).T()
	base := fr.freshRef(fr.vname(in))
	et := in.Type().Underlying().(*types.Slice).Elem()
	fr.zeroElems(et, base)
	fr.boundsCheck(in.Pos(), "makeslice", "(and (<= 0 "+ln+") (<= "+ln+" "+cp+"))")
	_ = vc
	return Val{Typ: in.Type(), L: []string{base, "0", ln, cp}}
}

func (fr *Frame) zeroElems(et types.Type, base string) {
	vc := fr.vc
	if vc.flatStruct(et) {
		// struct elements: fields of every element ref are zero — needs a quantifier; emit pattern-restricted axiom
		st := et.Underlying().(*types.Struct)
		_ = st
		vc.note("make([]struct): zero-initialisation of struct elements not modelled")
		return
	}
	if _, ok := et.Underlying().(*types.Array); ok {
		return
	}
	for _, l := range vc.shape(et) {
		fam := "E_" + vc.typeName(et) + l.Suffix
		vc.family(fam, famSortFor(l.Sort, 2))
		z := zeroOfSort("(Array Int " + l.Sort + ")")
		if l.Sort == "Int" && l.GoT != nil && isStringT(l.GoT) {
			z = "((as const (Array Int Int)) str_empty)"
		}
		fr.cur.heap = vc.heapSet(fr.cur.heap, fam, vc.define(fam, vc.famSort[fam], "(store "+vc.lookup(fr.cur.heap, fam)+" "+base+" "+z+")"))
	}
}

// ---------------------------------------------------------------------------
// maps

type mapFams struct {
	has  string
	card string
	val  []string // per value leaf
	vsh  []Leaf
}

func (vc *VC) mapFamilies(mt *types.Map) mapFams {
	name := "M_" + vc.typeName(mt.Key()) + "_" + vc.typeName(mt.Elem())
	mf := mapFams{has: name + ".has", card: name + ".card"}
	vc.family(mf.has, "(Array Int (Array Int Bool))")
	vc.family(mf.card, "(Array Int Int)")
	mf.vsh = vc.shape(mt.Elem())
	for _, l := range mf.vsh {
		f := name + ".val" + l.Suffix
		vc.family(f, famSortFor(l.Sort, 2))
		mf.val = append(mf.val, f)
	}
	return mf
}

func (vc *VC) mapKey(kt types.Type, k Val) string {
	if len(k.L) == 1 && vc.shape(kt)[0].Sort == "Int" {
		return k.L[0]
	}
	sh := vc.shape(kt)
	srt := make([]string, len(sh))
	for i, l := range sh {
		srt[i] = l.Sort
	}
	f := vc.declFun("mapkey_"+vc.typeName(kt), srt, "Int")
	t := "(" + f + " " + joinSp(k.L) + ")"
	// injectivity via inverse functions (ground instances; skipped under a quantifier)
	key := "mapkeyfact:" + t
	if !vc.specDone[key] && !strings.Contains(t, "bv.") {
		vc.specDone[key] = true
		for i, l := range sh {
			inv := vc.declFun(fmt.Sprintf("mapkeyinv%d_%s", i, vc.typeName(kt)), []string{"Int"}, l.Sort)
			vc.assert("(= (" + inv + " " + t + ") " + k.L[i] + ")")
		}
	}
	return t
}

func (fr *Frame) initMap(t types.Type, r string) {
	vc := fr.vc
	mt := t.Underlying().(*types.Map)
	mf := vc.mapFamilies(mt)
	h := fr.cur.heap
	h = vc.heapSet(h, mf.has, vc.define(mf.has, vc.famSort[mf.has], "(store "+vc.lookup(h, mf.has)+" "+r+" ((as const (Array Int Bool)) false))"))
	h = vc.heapSet(h, mf.card, vc.define(mf.card, vc.famSort[mf.card], "(store "+vc.lookup(h, mf.card)+" "+r+" 0)"))
	fr.cur.heap = h
}

func (fr *Frame) mapRead(h *Heap, mt *types.Map, m string, k string) (has string, val Val) {
	vc := fr.vc
	mf := vc.mapFamilies(mt)
	has = "(select (select " + vc.lookup(h, mf.has) + " " + m + ") " + k + ")"
	z := vc.zeroVal(mt.Elem())
	val = Val{Typ: mt.Elem()}
	for i, f := range mf.val {
		raw := "(select (select " + vc.lookup(h, f) + " " + m + ") " + k + ")"
		val.L = append(val.L, ite(has, raw, z.L[i]))
	}
	return
}

func (fr *Frame) lookupInstr(in *ssa.Lookup) Val {
	vc := fr.vc
	x := fr.get(in.X)
	k := fr.get(in.Index)
	mt, ok := in.X.Type().Underlying().(*types.Map)
	if !ok {
		// string index handled by Index; Lookup on string
		i := k.T()
		fr.boundsCheck(in.Pos(), "strindex", "(and (<= 0 "+i+") (< "+i+" (strlen "+x.T()+")))")
		r := vc.define(fr.vname(in), "Int", "(strbyte "+x.T()+" "+i+")")
		vc.assert("(and (>= " + r + " 0) (<= " + r + " 255))")
		return Val{Typ: in.Type(), L: []string{r}}
	}
	has, val := fr.mapRead(fr.cur.heap, mt, x.T(), vc.mapKey(mt.Key(), k))
	// a nil map has no entries
	has = and(not(eq(x.T(), "0")), has)
	hn := vc.define(fr.vname(in)+".has", "Bool", has)
	z := vc.zeroVal(mt.Elem())
	out := Val{Typ: in.Type()}
	for i := range val.L {
		out.L = append(out.L, ite(hn, val.L[i], z.L[i]))
	}
	tv := Val{Typ: mt.Elem(), L: out.L}
	tv = fr.nameVal2(fr.vname(in), tv)
	fr.typed(tv)
	out.L = tv.L
	if in.CommaOk {
		out.L = append(append([]string{}, out.L...), hn)
	}
	return out
}

func (fr *Frame) nameVal2(hint string, v Val) Val {
	vc := fr.vc
	sh := vc.shape(v.Typ)
	out := Val{Typ: v.Typ, Loc: v.Loc, Clo: v.Clo}
	for i, l := range sh {
		t := v.L[i]
		if len(t) > 40 {
			t = vc.define(hint+l.Suffix, l.Sort, t)
		}
		out.L = append(out.L, t)
	}
	return out
}

func (fr *Frame) mapWrite(mt *types.Map, m, k string, v Val) {
	vc := fr.vc
	mf := vc.mapFamilies(mt)
	h := fr.cur.heap
	hasArr := vc.lookup(h, mf.has)
	had := "(select (select " + hasArr + " " + m + ") " + k + ")"
	card := vc.lookup(h, mf.card)
	nh := vc.newHeap(hStore)
	nh.parent = h
	nh.over = map[string]string{}
	nh.over[mf.has] = vc.define(mf.has, vc.famSort[mf.has], "(store "+hasArr+" "+m+" (store (select "+hasArr+" "+m+") "+k+" true))")
	nh.over[mf.card] = vc.define(mf.card, vc.famSort[mf.card], "(store "+card+" "+m+" (ite "+had+" (select "+card+" "+m+") (+ (select "+card+" "+m+") 1)))")
	for i, f := range mf.val {
		a := vc.lookup(h, f)
		nh.over[f] = vc.define(f, vc.famSort[f], "(store "+a+" "+m+" (store (select "+a+" "+m+") "+k+" "+v.L[i]+"))")
	}
	fr.cur.heap = nh
}

func (fr *Frame) mapDelete(mt *types.Map, m, k string) {
	vc := fr.vc
	mf := vc.mapFamilies(mt)
	h := fr.cur.heap
	hasArr := vc.lookup(h, mf.has)
	had := "(select (select " + hasArr + " " + m + ") " + k + ")"
	card := vc.lookup(h, mf.card)
	nh := vc.newHeap(hStore)
	nh.parent = h
	nh.over = map[string]string{}
	nh.over[mf.has] = vc.define(mf.has, vc.famSort[mf.has], "(store "+hasArr+" "+m+" (store (select "+hasArr+" "+m+") "+k+" false))")
	nh.over[mf.card] = vc.define(mf.card, vc.famSort[mf.card], "(store "+card+" "+m+" (ite "+had+" (- (select "+card+" "+m+") 1) (select "+card+" "+m+")))")
	fr.cur.heap = nh
}

func (fr *Frame) mapUpdate(in *ssa.MapUpdate) {
	vc := fr.vc
	m := fr.get(in.Map)
	mt := in.Map.Type().Underlying().(*types.Map)
	k := vc.mapKey(mt.Key(), fr.get(in.Key))
	if fr.wantSafety("nil") {
		fr.oblige("safety-nilmap", fmt.Sprintf("L%d", fr.pos(in.Pos()).Line), not(eq(m.T(), "0")), nil, in.Pos(), in.String())
	}
	// a store into a nil map panics: execution continues only with a real map (like a nil
	// pointer dereference; an obligation only with 'safety nil')
	vc.assume(fr.curR, not(eq(m.T(), "0")))
	fr.siteMapUpdate(in, true)
	fr.mapWrite(mt, m.T(), k, fr.get(in.Value))
	fr.siteMapUpdate(in, false)
}

func (fr *Frame) mapLen(h *Heap, mt *types.Map, m string) string {
	vc := fr.vc
	mf := vc.mapFamilies(mt)
	card := "(select " + vc.lookup(h, mf.card) + " " + m + ")"
	// the number of entries of a map is never negative
	if key := "cardfact:" + card; !vc.specDone[key] && !strings.Contains(card, "bv.") {
		vc.specDone[key] = true
		vc.assert("(>= " + card + " 0)")
	}
	return ite(eq(m, "0"), "0", card)
}

// ---------------------------------------------------------------------------
// range over map / string

// rvFam: ghost family holding the set of keys a map range has yielded so far.
func (fr *Frame) rvFam(in *ssa.Range) string {
	fam := "RV_" + funcKey(fr.fn) + "." + in.Name()
	fr.vc.family(fam, "(Array Int Bool)")
	return fam
}

func (fr *Frame) rangeStart(in *ssa.Range) {
	if _, ok := in.X.Type().Underlying().(*types.Map); ok {
		fr.cur.heap = fr.vc.heapSet(fr.cur.heap, fr.rvFam(in), "((as const (Array Int Bool)) false)")
	}
}

// insertFree: no code inside the loop headed by h can add an entry to a map of type mt (deleting is
// allowed). Only then does "the range is exhausted" imply "every entry still present was yielded":
// Go may skip entries created during the iteration.
func (fr *Frame) insertFree(h *ssa.BasicBlock, mt *types.Map) bool {
	li := fr.loops[h]
	if li == nil {
		return false
	}
	vc := fr.vc
	set := map[string]bool{}
	for b := range li.blocks {
		for _, in := range b.Instrs {
			switch x := in.(type) {
			case *ssa.MapUpdate, *ssa.MakeMap, *ssa.Store:
				one := &ssa.BasicBlock{Instrs: []ssa.Instruction{in}}
				vc.modSetBlock(fr.fn, one, set, map[*ssa.Function]bool{})
			case ssa.CallInstruction:
				if _, isGo := in.(*ssa.Go); isGo {
					continue
				}
				if bi, ok := x.Common().Value.(*ssa.Builtin); ok && bi.Name() == "delete" {
					continue // deleting never adds an entry
				}
				vc.modSetCall(x.Common(), set, map[*ssa.Function]bool{})
			}
		}
	}
	return !inSet(set, vc.mapFamilies(mt).has)
}

func (fr *Frame) next(in *ssa.Next) Val {
	vc := fr.vc
	rng := in.Iter.(*ssa.Range)
	x := fr.get(rng.X)
	tup := in.Type().(*types.Tuple)
	ok := vc.fresh(fr.vname(in)+".ok", "Bool")
	out := Val{Typ: in.Type(), L: []string{ok}}
	if in.IsString {
		i := vc.fresh(fr.vname(in)+".i", "Int")
		r := vc.fresh(fr.vname(in)+".r", "Int")
		vc.assume(fr.curR, "(=> "+ok+" (and (<= 0 "+i+") (< "+i+" (strlen "+x.T()+")) (>= "+r+" 0) (<= "+r+" 1114111)))")
		vc.assume(fr.curR, "(=> (= (strlen "+x.T()+") 0) (not "+ok+"))")
		out.L = append(out.L, i, r)
		return out
	}
	mt := rng.X.Type().Underlying().(*types.Map)
	kv := vc.freshVal(fr.vname(in)+".k", tup.At(1).Type())
	fr.typed(kv)
	key := vc.mapKey(mt.Key(), Val{Typ: mt.Key(), L: kv.L})
	has, val := fr.mapRead(fr.cur.heap, mt, x.T(), key)
	vc.assume(fr.curR, "(=> "+ok+" (and "+not(eq(x.T(), "0"))+" "+has+"))")
	// an empty map yields nothing
	vc.assume(fr.curR, "(=> (= "+fr.mapLen(fr.cur.heap, mt, x.T())+" 0) (not "+ok+"))")
	// the set of keys yielded so far: each entry is produced at most once, and when nothing in the loop
	// can insert, the range ends only when every entry still present has been produced
	rv := fr.rvFam(rng)
	seen := vc.lookup(fr.cur.heap, rv)
	vc.assume(fr.curR, "(=> "+ok+" (not (select "+seen+" "+key+")))")
	if fr.insertFree(in.Block(), mt) {
		kq := q(vc.freshName("k"))
		hasArr := "(select " + vc.lookup(fr.cur.heap, vc.mapFamilies(mt).has) + " " + x.T() + ")"
		vc.assume(fr.curR, "(=> (and (not "+ok+") "+not(eq(x.T(), "0"))+") (forall (("+kq+" Int)) (! (=> (select "+hasArr+" "+kq+") (select "+seen+" "+kq+")) :pattern ((select "+hasArr+" "+kq+")))))")
	}
	fr.cur.heap = vc.heapSet(fr.cur.heap, rv, vc.define(rv, "(Array Int Bool)", ite(ok, "(store "+seen+" "+key+" true)", seen)))
	out.L = append(out.L, kv.L...)
	if _, isInvalid := tup.At(2).Type().(*types.Basic); isInvalid && tup.At(2).Type().(*types.Basic).Kind() == types.Invalid {
		out.L = append(out.L, "0")
		return out
	}
	vv := fr.nameVal2(fr.vname(in)+".v", Val{Typ: mt.Elem(), L: val.L})
	fr.typed(vv)
	out.L = append(out.L, vv.L...)
	return out
}

// ---------------------------------------------------------------------------
// select

func (fr *Frame) selectInstr(in *ssa.Select) Val {
	vc := fr.vc
	idx := vc.fresh(fr.vname(in)+".idx", "Int")
	recvOk := vc.fresh(fr.vname(in)+".ok", "Bool")
	lo := "0"
	if !in.Blocking {
		lo = "(- 1)"
	} else {
		fr.blockingPoint("select")
	}
	vc.assume(fr.curR, fmt.Sprintf("(and (>= %s %s) (< %s %d))", idx, lo, idx, len(in.States)))
	vc.family("Chan.closed", "(Array Int Bool)")
	if in.Blocking {
		// while this goroutine is blocked others may close channels: the closed-state is
		// re-read; channels already closed stay closed (stated for the channels of this select)
		old := vc.lookup(fr.cur.heap, "Chan.closed")
		nw := vc.fresh("Chan.closed", "(Array Int Bool)")
		for _, st := range in.States {
			ch := fr.get(st.Chan).T()
			vc.assume(fr.curR, "(=> (select "+old+" "+ch+") (select "+nw+" "+ch+"))")
		}
		fr.cur.heap = vc.heapSet(fr.cur.heap, "Chan.closed", nw)
	}
	closed := vc.lookup(fr.cur.heap, "Chan.closed")
	for i, st := range in.States {
		ch := fr.get(st.Chan).T()
		if st.Dir == types.RecvOnly {
			// a closed channel is always ready: a non-blocking select cannot take default if some recv chan is closed
			if !in.Blocking {
				vc.assume(fr.curR, fmt.Sprintf("(=> (select %s %s) (not (= %s (- 1))))", closed, ch, idx))
			}
			// receiving from a nil channel never proceeds
			vc.assume(fr.curR, fmt.Sprintf("(=> (= %s %d) (not (= %s 0)))", idx, i, ch))
			// ctx.Done(): ready exactly when the context is done (the channel is closed then)
			if call, ok := st.Chan.(*ssa.Call); ok && call.Call.IsInvoke() && call.Call.Method.Name() == "Done" && vc.typeName(call.Call.Value.Type()) == "context.Context" {
				vc.assume(fr.curR, fmt.Sprintf("(=> (= %s %d) (select %s %s))", idx, i, closed, ch))
			}
			// a channel that is only ever closed is ready exactly when it is closed
			if u, ok := st.Chan.(*ssa.UnOp); ok {
				if fa, ok := u.X.(*ssa.FieldAddr); ok {
					T := fa.X.Type().Underlying().(*types.Pointer).Elem()
					if vc.S.CloseOnly[vc.typeName(T)+"."+fieldName(T, fa.Field)] {
						vc.note("channel " + vc.typeName(T) + "." + fieldName(T, fa.Field) + " is close-only (never sent on): ready iff closed")
						vc.assume(fr.curR, fmt.Sprintf("(=> (= %s %d) (select %s %s))", idx, i, closed, ch))
					}
				}
			}
		}
	}
	fr.sitePseudo(in, "select", in.Pos(), nil, []Val{intVal(idx)}, true)
	defer fr.sitePseudo(in, "select", in.Pos(), nil, []Val{intVal(idx)}, false)
	out := Val{Typ: in.Type(), L: []string{idx, recvOk}}
	tup := in.Type().(*types.Tuple)
	for i := 2; i < tup.Len(); i++ {
		v := vc.freshVal(fr.vname(in)+fmt.Sprintf(".r%d", i), tup.At(i).Type())
		fr.typed(v)
		out.L = append(out.L, v.L...)
	}
	return out
}

// ---------------------------------------------------------------------------
// closures stored in locations of the current activation (e.g. captured funcs)

func (fr *Frame) cloStore(loc *Loc, c *Closure) {
	t := fr.top
	if t.safety == nil {
		t.safety = map[string]bool{}
	}
	if cloTable[t] == nil {
		cloTable[t] = map[string]*Closure{}
	}
	cloTable[t][loc.Fam+"|"+joinSp(loc.Idx)] = c
}

func (fr *Frame) cloLoad(loc *Loc) *Closure {
	if m := cloTable[fr.top]; m != nil {
		return m[loc.Fam+"|"+joinSp(loc.Idx)]
	}
	return nil
}

var cloTable = map[*Frame]map[string]*Closure{}

func (fr *Frame) goStmt(in *ssa.Go) {
	fr.vc.note("go statement in " + fr.top.fn.String() + ": spawned goroutine not part of this sequential VC")
	var args []Val
	for _, a := range in.Common().Args {
		args = append(args, fr.get(a))
	}
	fr.inGo = true
	fr.siteCall(in.Common(), in.Pos(), args, true, nil)
	fr.siteCall(in.Common(), in.Pos(), args, false, nil)
	fr.inGo = false
}
